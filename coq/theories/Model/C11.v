(* Model of quantarhei/spectroscopy/abscalculator.py: one_transition_spectrum (half-sided transform by
   numpy.fft.hfft, fftshift, order reversal, central cut), the sum over exciton transitions of
   dipole strength x line (_calculate_aggregate, _calculate_monomer), the dipole strengths of exciton
   transitions (dmoment.transform + dipole_strength) and the frequency axis re-created for the result.
   Executable definitions only.  numpy.fft.hfft is an oracle. *)
From Coq Require Import ZArith List Bool Arith QArith Qcanon Qabs Field.
From QV Require Import Base.Alg Base.Sums Base.Util Base.Dft Model.C13.
Import ListNotations.

(* ---------------------------------------------------------------------------------- *)
(*  values                                                                            *)
(* ---------------------------------------------------------------------------------- *)
Section Lines.
  Context {R : StarRing}.
  Open Scope sr_scope.
  Variable hfft : list R -> list R.                 (* numpy.fft.hfft: oracle, 2 (Nt - 1) real points *)

  (* ft[Nt//2 : Nt + Nt//2] *)
  Definition cut (nt : nat) (l : list R) : list R := firstn nt (skipn (nt / 2) l).

  (* one_transition_spectrum: ft = dd*hfft(at)*dt; fftshift; flipud; cut *)
  Definition one_transition (dd dt : R) (a : list R) : list R :=
    cut (length a) (rev (fftshift (map (fun z => dd * z * dt) (hfft a)))).

  Fixpoint ladd (l m : list R) : list R :=
    match l, m with
    | x :: l', y :: m' => (x + y) :: ladd l' m'
    | _, _ => []
    end.
  (* the code's order: first transition, then the others added to it *)
  Definition spectrum (dt : R) (lines : list (R * list R)) : list R :=
    match lines with
    | [] => []
    | (dd, a) :: rest => fold_left (fun acc l => ladd acc (one_transition (fst l) dt (snd l))) rest (one_transition dd dt a)
    end.

  (* dipole of the transition to exciton state a: sum_j d_j S_ja (component k), and its square *)
  Definition mu (n : nat) (S : nat -> nat -> R) (d : nat -> nat -> R) (a k : nat) : R :=
    sum n (fun j => d j k * S j a).
  Definition dstr (n : nat) (S : nat -> nat -> R) (d : nat -> nat -> R) (a : nat) : R :=
    sum 3 (fun k => mu n S d a k * mu n S d a k).

  (* weights of the half-sided transform: the end points count once, the others twice *)
  Definition trapw (nt m : nat) : R := if (Nat.eqb m 0 || Nat.eqb m (nt - 1))%bool then 1 else 1 + 1.

  (* _excitonic_coft(SS, AG, n) at one time point: energy-gap correlation function of exciton state n+1 (n = 0 .. na-1; state 0
     is the ground state, site kk is state kk+1), C kk ll = cfm.get_coft(kk, ll) at that time.  The weights are the squares of
     COLUMN n+1 of the eigenvector matrix: how exciton n+1 spreads over the sites *)
  Definition exc_weight (S : nat -> nat -> R) (n kk : nat) : R := S (kk + 1)%nat (n + 1)%nat * S (kk + 1)%nat (n + 1)%nat.
  Definition exc_coft (na : nat) (S C : nat -> nat -> R) (n : nat) : R :=
    sum na (fun kk => sum na (fun ll => exc_weight S n kk * exc_weight S n ll * C kk ll)).
End Lines.

(* ---------------------------------------------------------------------------------- *)
(*  frequency grids (field with 2 pi abstract, as in Model/C13.v)                     *)
(* ---------------------------------------------------------------------------------- *)
Section Grids.
  Variable K : Fld.
  Variable tp : K.
  Local Notation "x + y" := (fadd K x y).
  Local Notation "x - y" := (fsub K x y).
  Local Notation "x * y" := (fmul K x y).
  Local Notation "x / y" := (fdiv K x y).
  Local Notation "# n" := (ofnat K n) (at level 5).

  (* the frequency whose Fourier integral sits at position p of the returned data: the hfft grid has
     2 Nt - 2 points, and after shift, reversal and cut position p holds the index frequency p + Nt//2 - Nt + 2 *)
  Definition data_frequency (nt : nat) (dt rwa : K) (p : nat) : K :=
    rwa + (#p + #(nt / 2) - #nt + #2) * (tp / (#(2 * nt - 2) * dt)).

  (* the axis returned with the data. Pinned: st = frequencyAxis.data[Nt//2] (bootstrap's axis of 2 Nt points,
     shifted by rwa), do = its step, Nt points.  Repaired: the grid of the transform. *)
  Definition returned_axis_point (v : variant) (nt : nat) (dt rwa : K) (p : nat) : option K :=
    match v with
    | Pinned =>
        match freq_axis_of K tp (mkAxis (f0 K) nt dt UpperHalf (f0 K)) with
        | Some w => let st := point K w (a_len w / 2 / 2) + rwa in
                    Some (st + #p * a_step w)
        | None => None
        end
    | Repaired => Some (data_frequency nt dt rwa p)
    end.
End Grids.

(* ---------------------------------------------------------------------------------- *)
(*  executable instances for the correspondence check                                 *)
(* ---------------------------------------------------------------------------------- *)
(* real data over the rationals; the hfft calls of the run are replayed from the record *)
Definition qlist_of (l : list Q) : list QR := map Q2Qc l.
Definition gpair_of (l : list (Q * Q)) : list GQ := map (fun p => q2gq (fst p) (snd p)) l.

(* for the index model the oracle's input does not matter: each transition carries its own recorded output.
   [one_transition] is run with the constant oracle returning that output. *)
Definition line_of_record (dd dt : QR) (nt : nat) (out : list QR) : list QR :=
  one_transition (R:=QR) (fun _ => out) dd dt (repeat (r0 QR) nt).
Definition ladd_all (ls : list (list QR)) : list QR :=
  match ls with
  | [] => []
  | l :: rest => fold_left ladd rest l
  end.
Definition qclose (tol : Q) (x y : QR) : bool := Qle_bool (Qabs (this x - this y)) tol.

(* site dipoles d (rows: states 0..n-1, three components), eigenvectors S (n x n), exciton state a *)
Definition fn2 (m : list (list Q)) : nat -> nat -> QR := fun i j => Q2Qc (nth j (nth i m []) 0%Q).
Definition dstr_q (n : nat) (Sm d : list (list Q)) (a : nat) : QR := dstr (R:=QR) n (fn2 Sm) (fn2 d) a.

(* (Nt, dt, n states, S, d, [recorded hfft outputs per transition a = 1..], returned data, tolerance):
   data = sum_a dstr(a) * cut(rev(fftshift(hfft_a))) * dt *)
Definition case_spec := (nat * Q * nat * list (list Q) * list (list Q) * list (list Q) * list Q * Q)%type.
Fixpoint lines_from (nt : nat) (dt : QR) (n : nat) (Sm d : list (list Q)) (a : nat) (outs : list (list Q)) : list (list QR) :=
  match outs with
  | [] => []
  | o :: rest => line_of_record (dstr_q n Sm d a) dt nt (qlist_of o) :: lines_from nt dt n Sm d (S a) rest
  end.
Definition spec_agrees (c : case_spec) : bool :=
  let '(nt, dt, n, Sm, d, outs, data, tol) := c in
  all2 (qclose tol) (ladd_all (lines_from nt (Q2Qc dt) n Sm d 1%nat outs)) (qlist_of data).

(* grids: (2 pi, Nt, dt, rwa, points of the returned axis) against the pinned / repaired axis model, and the
   displacement of the data frequencies from the returned axis in units of the axis step at both ends *)
Definition case_grid := (Q * nat * Q * Q * list Q * Q)%type.
Definition grid_agrees (v : variant) (c : case_grid) : bool :=
  let '(tp, nt, dt, rwa, pts, tol) := c in
  all2 (fun p x => match returned_axis_point QF (Q2Qc tp) v nt (Q2Qc dt) (Q2Qc rwa) p with
                   | Some y => qclose tol y (Q2Qc x) | None => false end) (seq 0 nt) pts.
(* is the data frequency of position p on the returned axis point p?  (exact, in the model) *)
Definition aligned (v : variant) (tp : Q) (nt : nat) (dt rwa : Q) (p : nat) : bool :=
  match returned_axis_point QF (Q2Qc tp) v nt (Q2Qc dt) (Q2Qc rwa) p with
  | Some y => Qeq_bool (this y) (this (data_frequency QF (Q2Qc tp) nt (Q2Qc dt) (Q2Qc rwa) p))
  | None => false
  end.

(* exciton correlation function: (sites, integer matrix handed in as SS (rows), cfm.get_coft(kk,ll) at one time point as Gaussian
   rationals, exciton index n, value returned at that time point, tolerance) *)
Definition case_coft := (nat * list (list Z) * list (list (Q * Q)) * nat * (Q * Q) * Q)%type.
Definition zfn2 (m : list (list Z)) : nat -> nat -> GQ := fun i j => q2gq (inject_Z (nth j (nth i m []) 0%Z)) 0.
Definition gfn2 (m : list (list (Q * Q))) : nat -> nat -> GQ := fun i j => let p := nth j (nth i m []) (0%Q, 0%Q) in q2gq (fst p) (snd p).
Definition coft_agrees (c : case_coft) : bool :=
  let '(na, Sm, Cm, n, out, tol) := c in
  gq_close tol (exc_coft (R:=GQ) na (zfn2 Sm) (gfn2 Cm) n) (q2gq (fst out) (snd out)).
