(* Model of quantarhei/core/parallel.py: _calculate_ranges, _calculate_ranges_list/_array and the
   index sets handed out by block_distributed_range/list/array.   Executable definitions only. *)
From Coq Require Import ZArith List Bool.
Import ListNotations.
Open Scope Z_scope.

(* how the computed offsets are anchored: the pinned tree counted from 0 (start ignored),
   the repaired tree counts from [start] *)
Inductive variant := FromZero | FromStart.

(* one iteration of the loop `for rank in range(config.size)`; Python's // and % with a positive
   divisor are Z.div and Z.modulo (floor) *)
Definition range_of (v : variant) (size start stop rank : Z) : Z * Z :=
  let whole := stop - start in
  let per := whole / size in
  let rem := whole mod size in
  let n1 := rank * per in
  let n2 := n1 + per in
  let '(n1, n2) :=
     if rank <=? rem
     then (if rank =? 0 then (n1, n2) else (n1 + (rank - 1), n2 + rank))
     else (n1 + rem, n2 + rem) in
  match v with
  | FromZero => (n1, n2)
  | FromStart => (start + n1, start + n2)
  end.

(* config.ranges *)
Definition ranges (v : variant) (size start stop : Z) : list (Z * Z) :=
  map (fun r => range_of v size start stop (Z.of_nat r)) (seq 0 (Z.to_nat size)).

(* Python's range(a,b) as a list *)
Definition zrange (a b : Z) : list Z :=
  map (fun k => a + Z.of_nat k) (seq 0 (Z.to_nat (b - a))).

Definition block (v : variant) (size start stop rank : Z) : list Z :=
  let '(a, b) := range_of v size start stop rank in zrange a b.

(* indices of the items handed to [rank] by block_distributed_list (both return_index modes)
   and block_distributed_array; [sliced = false] is the pinned array/return_index branch that
   loops over the whole array *)
Definition list_block (v : variant) (size len rank : Z) : list Z := block v size 0 len rank.
Definition array_block (sliced : bool) (v : variant) (size len rank : Z) : list Z :=
  if sliced then block v size 0 len rank else zrange 0 len.

(* what a sum-reduction over all ranks visits, in rank order *)
Definition all_blocks (v : variant) (size start stop : Z) : list Z :=
  flat_map (fun r => block v size start stop (Z.of_nat r)) (seq 0 (Z.to_nat size)).

(* work is shared only in parallel_level = 1 (the outermost parallel region of an MPI run); in any
   other level (serial run, nested region) every process loops over the whole range and the
   reduction operations are the identity *)
Definition api_block (level : Z) (v : variant) (size start stop rank : Z) : list Z :=
  if level =? 1 then block v size start stop rank else zrange start stop.

(* the value process [rank] holds after `allreduce` of the per-process partial sums *)
Definition after_allreduce {A} (op : A -> A -> A) (e : A) (level : Z) (size : Z) (partial : nat -> A) (rank : nat) : A :=
  if level =? 1 then fold_right op e (map partial (seq 0 (Z.to_nat size))) else partial rank.

(* ---- correspondence helpers: compare with what the implementation returned ---- *)
Definition eqb_pair (p q : Z * Z) : bool := (fst p =? fst q) && (snd p =? snd q).
Fixpoint eqb_list {A} (e : A -> A -> bool) (l m : list A) : bool :=
  match l, m with
  | [], [] => true
  | x :: l', y :: m' => e x y && eqb_list e l' m'
  | _, _ => false
  end.

(* a case: size, start, stop and config.ranges as returned *)
Definition case_agrees (v : variant) (c : Z * Z * Z * list (Z * Z)) : bool :=
  let '(size, start, stop, impl) := c in eqb_list eqb_pair (ranges v size start stop) impl.

Fixpoint bad_from {A} (f : A -> bool) (k : nat) (l : list A) : list nat :=
  match l with
  | [] => []
  | x :: l' => if f x then bad_from f (S k) l' else k :: bad_from f (S k) l'
  end.
Definition bad {A} (f : A -> bool) (l : list A) : list nat := bad_from f 0%nat l.

(* ---- the public helpers as they are called: outside a declared parallel region (region counter < 1) they refuse;
   reduce / allreduce refuse there too, sum over the processes exactly in level 1 and leave the data alone elsewhere ---- *)
Inductive handed := Refused | Handed (idx : list Z).
Definition helper (region level : Z) (v : variant) (size start stop rank : Z) : handed :=
  if region <? 1 then Refused else Handed (api_block level v size start stop rank).
Inductive rmode := RRefused | RSummed | RUntouched.
Definition reduce_mode (region level : Z) : rmode :=
  if region <? 1 then RRefused else if level =? 1 then RSummed else RUntouched.

(* correspondence: (region, level, the range/list/array helpers refused, what reduce and allreduce did: 0 refused,
   1 summed over the communicator, 2 left the data alone) as observed on a real configuration object *)
Definition rmode_code (m : rmode) : Z := match m with RRefused => 0 | RSummed => 1 | RUntouched => 2 end.
Definition guard_agrees (c : Z * Z * bool * Z) : bool :=
  let '(region, level, hr, rr) := c in
  Bool.eqb hr (match helper region level FromStart 1 0 0 0 with Refused => true | Handed _ => false end) &&
  (rr =? rmode_code (reduce_mode region level)).
