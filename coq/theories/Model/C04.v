(* Model of the basis management of quantarhei: Manager.basis_stack / basis_transformations /
   basis_registered, get_current_basis, set_new_basis, transform_to_current_basis,
   register_with_basis (core/managers.py); eigenbasis_of.__enter__/__exit__; the basis-managed
   property getter/setter (utils/types.py); constructors that tag and register new objects
   (Operator, SuperOperator); protect/unprotect; apply(copy=True) of superoperators.
   Basis ids are stack positions (new id = current id + 1), so the stack is [0..depth].
   Data live in an abstract carrier X on which the abstract group G of basis changes acts:
   act S x  stands for  transform(S): x -> S^-1 x S.   Executable definitions only. *)
From Coq Require Import List Bool Arith.
Import ListNotations.

(* apply(copy=True): the pinned tree does not register the copy with its basis *)
Inductive copy_variant := CopyUnregistered | CopyRegistered.

Section Model.
  Variables G X : Type.
  Variable gid : G.
  Variable gmul : G -> G -> G.
  Variable ginv : G -> G.
  Variable act : G -> X -> X.
  Variable app : X -> X -> X.        (* action of a superoperator on an operator (tensordot) *)

  Record obj := mkObj { tag : nat; prot : bool; dat : X }.
  Record mst := mkM {
    trans : list G;                (* basis_transformations[1:], INNERMOST FIRST *)
    reg : list (list nat);         (* basis_registered[d], ..., [1] (object ids), aligned with trans *)
    heap : nat -> option obj
  }.
  Definition depth (s : mst) : nat := length (trans s).     (* = get_current_basis() *)

  Definition set_obj (s : mst) (i : nat) (o : obj) : mst :=
    mkM (trans s) (reg s) (fun j => if Nat.eqb j i then Some o else heap s j).
  (* register_with_basis(level, i), level >= 1: the list of level L sits at position depth - L *)
  Fixpoint reg_add (r : list (list nat)) (level : nat) (i : nat) : list (list nat) :=
    match r with
    | [] => []
    | l :: r' => if Nat.eqb (length r) level then (l ++ [i]) :: r' else l :: reg_add r' level i
    end.
  Fixpoint reg_at (r : list (list nat)) (level : nat) : list nat :=
    match r with
    | [] => []
    | l :: r' => if Nat.eqb (length r) level then l else reg_at r' level
    end.
  Definition register (s : mst) (level i : nat) : mst := mkM (trans s) (reg_add (reg s) level i) (heap s).

  (* SS = T[ob+1] . ... . T[cb] *)
  Definition path (ts : list G) (from : nat) : G :=
    fold_right (fun t acc => gmul acc t) gid (firstn (length ts - from) ts).

  (* transform_to_current_basis(o): None = "Basis of the object is not on stack." *)
  Definition to_current (s : mst) (i : nat) : option mst :=
    match heap s i with
    | None => Some s
    | Some o =>
        if prot o then Some s
        else if Nat.eqb (tag o) (depth s) then Some s
        else if Nat.leb (tag o) (depth s)
             then Some (register (set_obj s i (mkObj (depth s) (prot o) (act (path (trans s) (tag o)) (dat o)))) (depth s) i)
             else None
    end.

  (* property getter/setter *)
  Definition read (s : mst) (i : nat) : option (mst * option X) :=
    match to_current s i with
    | Some s' => Some (s', option_map dat (heap s' i))
    | None => None
    end.
  Definition write (s : mst) (i : nat) (x : X) : option mst :=
    match to_current s i with
    | Some s' => match heap s' i with
                 | Some o => Some (set_obj s' i (mkObj (tag o) (prot o) x))
                 | None => Some s'
                 end
    | None => None
    end.

  (* a label bound to a NEW Python object: whatever the label denoted before is unreachable, so its
     registrations are unobservable and dropped *)
  Definition set_new (s : mst) (i : nat) (o : obj) : mst :=
    mkM (trans s) (map (filter (fun j => negb (Nat.eqb j i))) (reg s)) (fun j => if Nat.eqb j i then Some o else heap s j).

  (* Operator(data=x) / SuperOperator(data=x): tagged with the current basis, registered unless basis 0 *)
  Definition create (s : mst) (i : nat) (x : X) : mst :=
    let s1 := set_new s i (mkObj (depth s) false x) in
    if Nat.eqb (depth s) 0 then s1 else register s1 (depth s) i.

  Definition set_prot (s : mst) (i : nat) (b : bool) : mst :=
    match heap s i with Some o => set_obj s i (mkObj (tag o) b (dat o)) | None => s end.

  (* eigenbasis_of(op).__enter__ with the diagonalising matrix S (oracle: eigh of the operator's data) *)
  Definition enter (s : mst) (T : G) : mst := mkM (T :: trans s) ([] :: reg s) (heap s).
  Definition enter_prepare (s : mst) (opi : nat) : option mst := to_current s opi.

  (* __exit__ *)
  Definition exit_one (T : G) (nb : nat) (s : mst) (i : nat) : mst :=
    match heap s i with
    | None => s
    | Some o =>
        let o' := mkObj nb (prot o) (if prot o then dat o else act (ginv T) (dat o)) in
        let s1 := set_obj s i o' in
        if Nat.eqb nb 0 then s1
        else if existsb (Nat.eqb i) (reg_at (reg s1) nb) then s1 else register s1 nb i
    end.
  Definition leave (s : mst) : mst :=
    match trans s, reg s with
    | T :: ts, l :: rs => fold_left (exit_one T (length ts)) l (mkM ts rs (heap s))
    | _, _ => s
    end.

  (* programs *)
  Inductive prog :=
  | PSkip
  | PSeq (a b : prog)
  | PNew (i : nat) (x : X)
  | PRead (i : nat)
  | PWrite (i : nat) (x : X)
  | PProtect (i : nat) (b : bool)
  | PApply (v : copy_variant) (sup src dst : nat)   (* dst = sup.apply(src)  (copy=True) *)
  | PWith (opi : nat) (T : G) (body : prog)        (* with eigenbasis_of(op): body;  T = its diagonaliser *)
  | PRaise
  | PTry (body : prog).

  (* (state, raised, values read) *)
  Fixpoint exec (p : prog) (s : mst) : mst * bool * list (nat * option X) :=
    match p with
    | PSkip => (s, false, [])
    | PSeq a b => let '(s1, r1, o1) := exec a s in
                  if r1 then (s1, true, o1) else let '(s2, r2, o2) := exec b s1 in (s2, r2, o1 ++ o2)
    | PNew i x => (create s i x, false, [])
    | PRead i => match heap s i, read s i with
                 | Some _, Some (s', v) => (s', false, [(i, v)])
                 | _, _ => (s, true, [])         (* unknown object, or "not on stack" *)
                 end
    | PWrite i x => match heap s i, write s i x with Some _, Some s' => (s', false, []) | _, _ => (s, true, []) end
    | PProtect i b => match heap s i with Some _ => (set_prot s i b, false, []) | None => (s, true, []) end
    | PApply v sup src dst =>
        match heap s sup, heap s src with
        | None, _ | _, None => (s, true, [])
        | Some _, Some o =>
            (* oper_ven = copy.copy(oper) *)
            let s1 := set_new s dst o in
            let s1 := match v with
                      | CopyRegistered => if Nat.eqb (tag o) 0 then s1 else register s1 (tag o) dst
                      | CopyUnregistered => s1
                      end in
            (* numpy.tensordot(self.data, oper.data) *)
            match read s1 sup with
            | None => (s1, true, [])
            | Some (s2, r) =>
                match read s2 src with
                | None => (s2, true, [])
                | Some (s3, x) =>
                    match r, x with
                    | Some rv, Some xv =>
                        match write s3 dst (app rv xv) with
                        | Some s4 => (s4, false, [])
                        | None => (s3, true, [])
                        end
                    | _, _ => (s3, true, [])
                    end
                end
            end
        end
    | PWith opi T body =>
        match heap s opi, enter_prepare s opi with
        | None, _ | _, None => (s, true, [])
        | Some _, Some s0 =>
            let '(s1, r, o) := exec body (enter s0 T) in (leave s1, r, o)
        end
    | PRaise => (s, true, [])
    | PTry body => let '(s1, _, o) := exec body s in (s1, false, o)
    end.
End Model.
