(* Model of AggregateBase.dipole_dipole_coupling and set_coupling_by_dipole_dipole (quantarhei/builders/aggregate_base.py):
   the resonance-coupling matrix filled from the positions and transition dipoles of the molecules.
   Executable definitions only; dipole_dipole is the model of interactions.py in Model/C03.v. *)
From Coq Require Import ZArith List Bool Arith.
From QV Require Import Model.C03.

Section DipoleMatrix.
  Variable F : Type.
  Variables (f0 f1 : F) (fadd fmul fsub fdiv : F -> F -> F).
  Variables (pos dmom : nat -> nat -> F).      (* monomers[k].position[c], monomers[k].dmoments[0,1,c] *)
  Variable RRf : nat -> nat -> F.              (* numpy.sqrt(dot(r_k - r_l, r_k - r_l)): oracle *)
  Variable close : nat -> nat -> bool.         (* that distance is below delta: dipole_dipole_coupling raises *)
  Variables (pi eps0 : F).
  (* dipole_dipole_coupling(kk, ll, epsr, delta) in internal units *)
  Definition dd_coupling (epsr : F) (kk ll : nat) : F :=
    dipole_dipole F f1 fadd fmul fsub fdiv (pos kk) (pos ll) (dmom kk) (dmom ll) (RRf kk ll) pi eps0 epsr.
  (* try: cc = self.dipole_dipole_coupling(kk, ll, epsr=epsr, delta=delta)  except: cc = 0.0 *)
  Definition dd_entry (epsr : F) (kk ll : nat) : F := if close kk ll then f0 else dd_coupling epsr kk ll.
  (* for kk in range(nmono): for ll in range(kk+1, nmono): J[kk,ll] = J[ll,kk] = entry *)
  Definition dd_matrix (J0 : nat -> nat -> F) (epsr : F) : nat -> nat -> F :=
    fun a b => if Nat.ltb a b then dd_entry epsr a b else if Nat.ltb b a then dd_entry epsr b a else J0 a b.
End DipoleMatrix.
