(* Model of the initial/thermal density matrices handed out by the builders:
   quantarhei/builders/aggregate_base.py  (_thermal_population, get_DensityMatrix, _impulsive_population)
   quantarhei/builders/opensystem.py      (get_thermal_ReducedDensityMatrix).
   Executable definitions only.

   Numbers are rationals (Q contains every float64 value).  numpy.exp is an ORACLE [ex : Q -> Q] of which the
   theorems assume only  ex 0 == 1,  0 <= ex x  and monotonicity - in particular NOT 0 < ex x: a Boltzmann
   factor may underflow to zero, which is exactly what happens to exp(-E/kT) for optical E below ~20 K.
   eigh is an oracle too: the transformation matrices enter as data.

   Variant flags record what the pinned code did (Buggy) and what the repaired code does (Fixed):
     vs  shift of the energies by their minimum before exponentiation (Buggy: none)
     vz  state populated at T = 0 (Buggy: the first state of the block; Fixed: the state of lowest energy)
     vw  weak-coupling request: basis in which the density-matrix object is created
     vd  strong-coupling request: basis from which the energies are read *)
From Coq Require Import ZArith List Bool QArith Qabs Qcanon.
From QV Require Import Base.Alg Base.Sums Base.Mat Base.Util.
Import ListNotations.
Local Open Scope Q_scope.

Inductive variant := Buggy | Fixed.

(* ------------------------------------------------------------------------------------------ *)
(*  lists of rationals                                                                        *)
(* ------------------------------------------------------------------------------------------ *)
Fixpoint qsum (l : list Q) : Q := match l with [] => 0 | x :: r => x + qsum r end.

(* numpy.amin / numpy.argmin of the non-empty list x :: l (argmin: first index of the minimum) *)
Fixpoint lmin (x : Q) (l : list Q) : Q :=
  match l with [] => x | y :: r => let m := lmin y r in if Qle_bool x m then x else m end.
Fixpoint argmin (x : Q) (l : list Q) : nat :=
  match l with [] => O | y :: r => if Qle_bool x (lmin y r) then O else S (argmin y r) end.

Fixpoint onehot (len k : nat) : list Q :=
  match len with
  | O => []
  | S len' => match k with O => 1 :: repeat 0 len' | S k' => 0 :: onehot len' k' end
  end.

Fixpoint zipsub (h s : list Q) : list Q :=
  match h, s with x :: h', y :: s' => (x - y) :: zipsub h' s' | _, _ => [] end.

Section Thermal.
  Variable ex : Q -> Q.        (* numpy.exp *)

  (* the Boltzmann weights of one block of states with energies e0 :: er at kT <> 0:
       ne = exp(-(ens - shift)/kT);  ne / sum(ne)         None = 0/0 (NaN; the constructor of
     DensityMatrix then raises "not selfadjoint") *)
  Definition bshift (vs : variant) (e0 : Q) (er : list Q) : Q :=
    match vs with Buggy => 0 | Fixed => lmin e0 er end.
  Definition bweights (vs : variant) (kT e0 : Q) (er : list Q) : list Q :=
    map (fun e => ex (- (e - bshift vs e0 er) / kT)) (e0 :: er).
  Definition boltz (vs : variant) (kT e0 : Q) (er : list Q) : option (list Q) :=
    let ne := bweights vs kT e0 er in
    let s := qsum ne in
    if Qeq_bool s 0 then None else Some (map (fun x => x / s) ne).

  (* T = 0 *)
  Definition zeroT (vz : variant) (e0 : Q) (er : list Q) : list Q :=
    onehot (S (length er)) (match vz with Buggy => O | Fixed => argmin e0 er end).

  (* AggregateBase._thermal_population(temp, subtract, relaxation_hamiltonian, start): the diagonal of the
     returned matrix (all other elements are zero).  [hd] = diagonal of the Hamiltonian array handed in,
     [sub] = subtract (indexed from the start of the block) *)
  Definition thermal_population (vs vz : variant) (kB temp : Q) (hd sub : list Q) (start : nat)
    : option (list Q) :=
    match zipsub (skipn start hd) sub with
    | [] => None                                     (* empty block: IndexError / amin of an empty array *)
    | e0 :: er =>
        if Qeq_bool temp 0 then Some (repeat 0 start ++ zeroT vz e0 er)
        else match boltz vs (kB * temp) e0 er with
             | Some p => Some (repeat 0 start ++ p)
             | None => None
             end
    end.

  (* OpenSystem.get_thermal_ReducedDensityMatrix: populations in the eigenbasis of H (eigenvalues [hd],
     ascending as returned by eigh); |T| < 1e-10 counts as zero and populates state 0 *)
  Definition opensystem_population (vs : variant) (kB temp : Q) (hd : list Q) : option (list Q) :=
    match hd with
    | [] => None
    | e0 :: er =>
        if negb (Qle_bool (1 # 10000000000) (Qabs temp))
        then Some (onehot (S (length er)) O)
        else boltz vs (kB * temp) e0 er
    end.
End Thermal.

(* ------------------------------------------------------------------------------------------ *)
(*  matrices: basis bookkeeping of get_DensityMatrix and impulsive excitation                 *)
(* ------------------------------------------------------------------------------------------ *)
Section Matrices.
  Context {R : StarRing}.
  Open Scope sr_scope.

  Definition mdiag (d : nat -> R) : @mat R := fun i j => if Nat.eqb i j then d i else 0.

  (* an operator with data A in a basis reached from the site basis by S (A_cur = S1 . A_site . S)
     denotes the site-basis operator S . A . S1 *)
  (* A . B . C with the inner product materialised once (numpy.dot(A, numpy.dot(B, C))) *)
  Definition mmul3 (n : nat) (A B C : @mat R) : mat := mmul n A (tab2 n n (mmul n B C)).

  Definition site_repr (n : nat) (S S1 A : @mat R) : mat := mmul3 n S A S1.

  (* weak coupling: the populations D are computed in the eigenbasis of the Hamiltonian, reached from the
     caller's basis by U (inside `with eigenbasis_of(Ham)`).
       Buggy: the array is handed to DensityMatrix() after the context was left: data = D, labelled with
              the caller's basis
       Fixed: the object is created inside the context; leaving it transforms the data to U . D . U1 *)
  Definition weak_data (vw : variant) (n : nat) (U U1 D : @mat R) : mat :=
    match vw with Buggy => D | Fixed => mmul3 n U D U1 end.

  (* strong coupling: energies are the diagonal of the Hamiltonian in the SITE basis.  Hcur = HH.data is in
     the caller's basis (reached from the site basis by S).
       Buggy: diagonal of Hcur itself, populations returned as they are
       Fixed: diagonal of S . Hcur . S1; result S1 . D . S *)
  Definition strong_energies (vd : variant) (n : nat) (S S1 Hcur : @mat R) : nat -> R :=
    match vd with Buggy => fun i => Hcur i i | Fixed => let M := tab2 n n (site_repr n S S1 Hcur) in fun i => M i i end.
  Definition strong_data (vd : variant) (n : nat) (S S1 D : @mat R) : mat :=
    match vd with Buggy => D | Fixed => mmul3 n S1 D S end.

  (* impulsive excitation: dabs . rho . dabs with dabs = sqrt(Dx^2 + Dy^2 + Dz^2) elementwise (oracle X) *)
  Definition impulsive (n : nat) (X rho : @mat R) : mat := mmul3 n X rho X.

  (* the quadratic form v^dagger A v *)
  Definition qform (n : nat) (A : @mat R) (v : @vec R) : R :=
    sum n (fun i => sum n (fun j => cj R (v i) * A i j * v j)).
End Matrices.

(* ------------------------------------------------------------------------------------------ *)
(*  executable instance: get_DensityMatrix over the rationals                                 *)
(* ------------------------------------------------------------------------------------------ *)
Definition q2c (q : Q) : QR := Q2Qc q.
Definition c2q (x : QR) : Q := this x.
Definition list_of_mat {R : StarRing} (n : nat) (A : @mat R) : list (list R) :=
  map (fun i => map (A i) (seq 0 n)) (seq 0 n).
Definition diag_of (p : list Q) : @mat QR := mdiag (fun i => q2c (nth i p 0)).

(* the oracle exp as a finite table (argument, value) written by the harness: the arguments are the exact
   rationals the model computes, the values are what numpy.exp returned in the run *)
Definition ex_tab (tab : list (Q * Q)) (x : Q) : Q :=
  match find (fun p => Qeq_bool (fst p) x) tab with Some p => snd p | None => - (1) end.

Inductive request := Thermal | Weak | Strong | Impulsive | OpenSys.

Record dmcase := mkCase {
  c_req : request;
  c_n : nat;                       (* dimension *)
  c_start : nat;                   (* Nb[0] *)
  c_kB : Q; c_temp : Q;
  c_Hcur : list (list Q);          (* Ham.data in the caller's basis *)
  c_hexc : list Q;                 (* diagonal of Ham.data inside eigenbasis_of(Ham) (eigh oracle) *)
  c_re : list Q;                   (* reorganisation energies per state of the excited block *)
  c_S : list (list Q); c_S1 : list (list Q);     (* site basis -> caller's basis, and inverse *)
  c_U : list (list Q); c_U1 : list (list Q);     (* caller's basis -> eigenbasis of Ham, and inverse *)
  c_X : list (list Q);             (* dabs *)
  c_tab : list (Q * Q)
}.

Definition qmat (l : list (list Q)) : @mat QR := mat_of (R:=QR) (map (map q2c) l).

Definition get_dm (vs vz vw vd : variant) (c : dmcase) : option (@mat QR) :=
  let n := c_n c in
  let ex := ex_tab (c_tab c) in
  let hcur := map (fun i => nth i (nth i (c_Hcur c) []) 0) (seq 0 n) in
  match c_req c with
  | Thermal =>
      match thermal_population ex vs vz (c_kB c) (c_temp c) hcur (repeat 0 n) 0 with
      | Some p => Some (diag_of p) | None => None end
  | Impulsive =>
      match thermal_population ex vs vz (c_kB c) (c_temp c) hcur (repeat 0 n) 0 with
      | Some p => Some (tab2 n n (impulsive n (qmat (c_X c)) (diag_of p))) | None => None end
  | Weak =>
      match skipn (c_start c) (c_hexc c) with
      | [] => None
      | e0 :: er =>
          let subt := repeat (lmin e0 er) n in
          match thermal_population ex vs vz (c_kB c) (c_temp c) (c_hexc c) subt (c_start c) with
          | Some p => Some (tab2 n n (weak_data vw n (qmat (c_U c)) (qmat (c_U1 c)) (diag_of p)))
          | None => None end
      end
  | OpenSys =>
      (* OpenSystem.get_thermal_ReducedDensityMatrix: populations in the eigenbasis of H (also at T = 0), object created
         inside eigenbasis_of(H) and transformed to the caller's basis when that context is left *)
      match opensystem_population ex vs (c_kB c) (c_temp c) (c_hexc c) with
      | Some p => Some (tab2 n n (weak_data vw n (qmat (c_U c)) (qmat (c_U1 c)) (diag_of p)))
      | None => None end
  | Strong =>
      let E := strong_energies vd n (qmat (c_S c)) (qmat (c_S1 c)) (qmat (c_Hcur c)) in
      let hs := map (fun i => c2q (E i)) (seq 0 n) in
      match thermal_population ex vs vz (c_kB c) (c_temp c) hs (c_re c) (c_start c) with
      | Some p => Some (tab2 n n (strong_data vd n (qmat (c_S c)) (qmat (c_S1 c)) (diag_of p)))
      | None => None end
  end.

Definition qclose (tol x y : Q) : bool := Qle_bool (Qabs (x - y)) tol.

(* (case, outcome of the implementation: None = exception or non-finite data) *)
Definition dm_agrees (tol : Q) (co : dmcase * option (list (list Q))) : bool :=
  let '(c, out) := co in
  match get_dm Fixed Fixed Fixed Fixed c, out with
  | Some A, Some B => all2 (all2 (fun x y => qclose tol (c2q x) y)) (list_of_mat (c_n c) A) B
  | None, None => true
  | _, _ => false
  end.

(* direct calls of _thermal_population / get_thermal_ReducedDensityMatrix:
   (kind 0 = aggregate, 1 = opensystem; kB; temp; hd; sub; start; exp table; outcome) *)
Definition popcase := (nat * Q * Q * list Q * list Q * nat * list (Q * Q) * option (list Q))%type.
Definition pop_model (vs vz : variant) (c : popcase) : option (list Q) :=
  let '(kind, kB, temp, hd, sub, start, tab, _) := c in
  match kind with
  | O => thermal_population (ex_tab tab) vs vz kB temp hd sub start
  | _ => opensystem_population (ex_tab tab) vs kB temp hd
  end.
Definition pop_agrees_with (vs vz : variant) (tol : Q) (c : popcase) : bool :=
  let '(_, _, _, _, _, _, _, out) := c in
  match pop_model vs vz c, out with
  | Some p, Some q => all2 (qclose tol) p q
  | None, None => true
  | _, _ => false
  end.
Definition pop_agrees := pop_agrees_with Fixed Fixed.


(* ------------------------------------------------------------------------------------------ *)
(*  nested basis contexts: what get_DensityMatrix accumulates from Manager().basis_transformations *)
(* ------------------------------------------------------------------------------------------ *)
Section Nested.
  Context {R : StarRing}.
  (* SS = eye; for ZZ in basis_transformations[1:]: SS = SS . ZZ        (Z_1 . Z_2 ... Z_m, outermost context first) *)
  Definition basis_product (n : nat) (Zs : list (@mat R)) : @mat R := fold_left (fun S Z => mmul n S Z) Zs mid.
  (* the inverses in the opposite order: Zi_m ... Zi_1 *)
  Definition inverse_product (n : nat) (Zis : list (@mat R)) : @mat R := fold_left (fun T Zi => mmul n Zi T) Zis mid.
  (* data of an operator after entering the contexts one after the other: X -> Zi . X . Z  (pairs (Z, Zi)) *)
  Definition nested_data (n : nat) (ctx : list (@mat R * @mat R)) (A : @mat R) : @mat R :=
    fold_left (fun X c => mmul n (snd c) (mmul n X (fst c))) ctx A.
End Nested.

(* the accumulated transformation as the model computes it from the transformations on the stack of the basis manager:
   (n, Z_1 .. Z_m = Manager().basis_transformations[1:] of the run, the matrix handed to the cases above as c_S) *)
Definition case_bp := (nat * list (list (list Q)) * list (list Q))%type.
Definition bp_agrees (tol : Q) (c : case_bp) : bool :=
  let '(n, Zs, SS) := c in
  all2 (all2 (fun x y => qclose tol (c2q x) y)) (list_of_mat n (tab2 n n (basis_product n (map (fun Z => tab2 n n (qmat Z)) Zs)))) SS.
