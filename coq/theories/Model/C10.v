(* Model of the vibronic part of quantarhei/builders/aggregate_base.py (fc_factor, allstates with
   vibrational signatures, the vibronic branches of coupling/transition_dipole used by _build, FCf) and of
   aggregate_states.py (ElectronicState.vsignatures = numpy.ndindex over the declared level counts,
   energy with vibrational quanta).  The electronic part is Model/C03.v.  The Franck-Condon tables
   (qm/oscillators/ho.py: operator_factory.shift_operator, an eig + exp of a 100 x 100 matrix) and the float
   subtraction of two shifts that keys the look-up are oracles.  Executable definitions only. *)
From Coq Require Import ZArith List Bool Arith QArith Qcanon.
From QV Require Import Base.Alg Base.Sums Base.Mat Model.C03.
Import ListNotations.
Local Open Scope nat_scope.

(* numpy.ndindex(shape): all index tuples in row-major order (last index fastest) *)
Fixpoint ndindex (shape : list nat) : list (list nat) :=
  match shape with
  | [] => [[]]
  | n :: rest => flat_map (fun i => map (cons i) (ndindex rest)) (seq 0 n)
  end.

Fixpoint prod (l : list nat) : nat := match l with [] => 1 | n :: r => n * prod r end.

(* position of an index tuple in row-major order *)
Fixpoint rank (shape v : list nat) : nat :=
  match shape, v with
  | _ :: rest, i :: v' => i * prod rest + rank rest v'
  | _, _ => 0
  end.

Section Vib.
  Context {R : StarRing}.
  Open Scope sr_scope.
  Variable N : nat.
  Variable E : nat -> nat -> R.
  Variable J : nat -> nat -> R.
  Variable dip : nat -> nat -> R.
  Variable sqrtf : nat -> R.
  Variable Sh : Type.                        (* values of SubMode.shift *)
  Variable K : Type.                         (* keys of the FC storage *)
  Variable shiftdiff : Sh -> Sh -> K.          (* smod1.shift - smod2.shift (float subtraction + look-up) *)
  Variable FCtab : K -> nat -> nat -> R.     (* self.FC.get(self.FC.index(shft))[qn1, qn2] *)

  Record submode := mkSub { sm_nmax : nat; sm_omega : R; sm_shift : Sh }.
  Variable vm : sig -> list submode.         (* ElectronicState.vibmodes: per molecule, per mode, the submode
                                                of the electronic level the molecule is in *)

  Definition nmaxes (s : sig) : list nat := map sm_nmax (vm s).

  (* fc_factor: res = 1.0; for kk: res = res*FC[...][qn1,qn2] *)
  Fixpoint fc_prod (m1 m2 : list submode) (v1 v2 : list nat) (res : R) : R :=
    match m1, m2, v1, v2 with
    | a :: m1', b :: m2', q1 :: v1', q2 :: v2' =>
        fc_prod m1' m2' v1' v2' (res * FCtab (shiftdiff (sm_shift a) (sm_shift b)) q1 q2)
    | _, _, _, _ => res
    end.
  Definition fc_factor (s1 s2 : sig) (v1 v2 : list nat) : R := fc_prod (vm s1) (vm s2) v1 v2 1.

  (* a vibronic state: (electronic index, electronic signature, vibrational signature) *)
  Definition vstate := (nat * sig * list nat)%type.
  (* allstates: for every electronic signature (index ist) all vibrational signatures *)
  Definition vstates (sigs : list sig) : list vstate :=
    flat_map (fun p => map (fun v => (fst p, snd p, v)) (ndindex (nmaxes (snd p))))
             (combine (seq 0 (length sigs)) sigs).

  (* ElectronicState.energy(vsig): en = 0.0; en += vsig[k]*omega_k ...; en += elenergies ... *)
  Definition ofnat (n : nat) : R := Nat.iter n (fun x => x + 1) 0.
  Fixpoint vib_energy (m : list submode) (v : list nat) (acc : R) : R :=
    match m, v with
    | a :: m', q :: v' => vib_energy m' v' (acc + ofnat q * sm_omega a)
    | _, _ => acc
    end.
  Definition venergy (x : vstate) : R :=
    let '(_, s, v) := x in vib_energy (vm s) v 0 + energy N E s.

  Variable sigs : list sig.
  Definition vst (a : nat) : vstate := nth a (vstates sigs) (0%nat, [], []).

  (* the double loop of _build *)
  Definition vFC : @mat R := fun a b =>
    let '(_, s1, v1) := vst a in let '(_, s2, v2) := vst b in fc_factor s1 s2 v1 v2.
  Definition vH : @mat R := fun a b =>
    if Nat.eqb a b then venergy (vst a)
    else let '(i1, s1, v1) := vst a in let '(i2, s2, v2) := vst b in
         coupling N J sqrtf s1 i1 s2 i2 (fc_factor s1 s2 v1 v2).
  Definition vD (c : nat) : @mat R := fun a b =>
    let '(_, s1, v1) := vst a in let '(_, s2, v2) := vst b in trdip dip s1 s2 (fc_factor s1 s2 v1 v2) c.

  (* Nb[ii]: number of vibronic states in band ii *)
  Definition vNb (omax : list nat) (mult : nat) : list nat :=
    map (fun ii => list_sum (map (fun s => prod (nmaxes s)) (elsigs_eq omax ii))) (seq 0 (S mult)).
End Vib.

(* ---- executable instance for the correspondence check: shifts and keys are small numbers ---- *)
Definition qsub (nmax : nat) (omega : Q) (shift : nat) : @submode QR nat := @mkSub QR nat nmax (Q2Qc omega) shift.
