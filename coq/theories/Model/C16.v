(* Model of quantarhei/qm/liouvillespace/heom.py: KTHierarchy.generate_indices (level-by-level with the
   duplicate filter), _convert_2_matrix (flattening, level offsets), _make_nmp1 (neighbour search),
   _make_Gamma, and the right-hand sides _ado_self_rhs/_ado_cros_rhs.  Executable definitions only. *)
From Coq Require Import ZArith List Bool Arith.
From QV Require Import Base.Alg Base.Sums Base.Mat.
Import ListNotations.

Definition mi := list nat.      (* a multi-index over the baths *)

Fixpoint mi_eqb (a b : mi) : bool :=
  match a, b with
  | [], [] => true
  | x :: a', y :: b' => Nat.eqb x y && mi_eqb a' b'
  | _, _ => false
  end.

(* nlist = old.copy(); nlist[nn] += 1 *)
Fixpoint bump (m : mi) (k : nat) : mi :=
  match m with
  | [] => []
  | x :: m' => match k with O => S x :: m' | S k' => x :: bump m' k' end
  end.

Definition mem (x : mi) (l : list mi) : bool := existsb (mi_eqb x) l.

(* "if nlist not in new_level_prev: new_level_prev.append(nlist)" over the candidates in order *)
Definition add_new (acc : list mi) (x : mi) : list mi := if mem x acc then acc else acc ++ [x].
Definition next_level (N : nat) (prev : list mi) : list mi :=
  fold_left add_new (flat_map (fun old => map (bump old) (seq 0 N)) prev) [].

Fixpoint levels_from (N : nat) (prev : list mi) (k : nat) : list (list mi) :=
  match k with
  | O => []
  | S k' => let nl := next_level N prev in nl :: levels_from N nl k'
  end.
(* generate_indices(N, level=depth) *)
Definition gen_indices (N depth : nat) : list (list mi) := [repeat 0 N] :: levels_from N [repeat 0 N] depth.

(* hinds, levels (offsets), levlengths *)
Definition hinds (N depth : nat) : list mi := concat (gen_indices N depth).
Definition levlengths (N depth : nat) : list nat := map (@length mi) (gen_indices N depth).
Fixpoint offsets_from (start : nat) (lens : list nat) : list nat :=
  match lens with [] => [] | l :: r => start :: offsets_from (start + l) r end.
Definition level_offsets (N depth : nat) : list nat := offsets_from 0 (levlengths N depth).

(* indxm[kk] -= 1 in signed arithmetic: no index of the table can equal it when the entry was 0 *)
Fixpoint lower (m : mi) (k : nat) : option mi :=
  match m with
  | [] => Some []
  | x :: m' =>
      match k with
      | O => match x with O => None | S x' => Some (x' :: m') end
      | S k' => option_map (cons x) (lower m' k')
      end
  end.

(* "venm = -1; for ll in range(bound): if equal: venm = ll"  (the LAST match below the bound) *)
Fixpoint find_last (x : mi) (l : list mi) (i : nat) (best : option nat) : option nat :=
  match l with
  | [] => best
  | y :: l' => find_last x l' (S i) (if mi_eqb y x then Some i else best)
  end.
Definition nm1 (H : list mi) (n k : nat) : option nat :=
  match lower (nth n H []) k with
  | Some x => find_last x (firstn n H) 0 None
  | None => None
  end.
Definition np1 (H : list mi) (n k : nat) : option nat := find_last (bump (nth n H []) k) H 0 None.

(* tables as the implementation holds them (-1 = absent) *)
Definition oz (o : option nat) : Z := match o with Some i => Z.of_nat i | None => (-1)%Z end.
Definition nm1_table (N depth : nat) : list (list Z) :=
  let H := hinds N depth in map (fun n => map (fun k => oz (nm1 H n k)) (seq 0 N)) (seq 0 (length H)).
Definition np1_table (N depth : nat) : list (list Z) :=
  let H := hinds N depth in map (fun n => map (fun k => oz (np1 H n k)) (seq 0 N)) (seq 0 (length H)).

(* ---------------- right-hand sides ---------------- *)
Section RHS.
  Context {R : StarRing}.
  Open Scope sr_scope.
  Variable dim : nat.          (* dimension of the ADOs *)
  Variable nb : nat.           (* number of baths *)
  Variable H : list mi.        (* hinds *)
  Variable HH : @mat R.        (* Hamiltonian (minus the RWA part) *)
  Variable Vs : nat -> @mat R. (* system parts of the bath couplings *)
  Variable ii : R.             (* the imaginary unit *)
  Variables lam gam : nat -> R.
  Variable kBT : R.
  Variable two : R.

  Definition ofnat (n : nat) : R := Nat.iter n (fun x => x + 1) 0.
  Definition Gamma (n : nat) : R := sum nb (fun k => ofnat (nth k (nth n H []) 0%nat) * gam k).

  Definition comm (A B : @mat R) : @mat R := msub (mmul dim A B) (mmul dim B A).
  Definition acomm (A B : @mat R) : @mat R := madd (mmul dim A B) (mmul dim B A).

  (* _ado_self_rhs: -dt (i [HH, ado_n] + Gamma_n ado_n) *)
  Definition self_rhs (dt : R) (ado : nat -> @mat R) (n : nat) : @mat R :=
    mscale (- dt) (madd (mscale ii (comm HH (ado n))) (mscale (Gamma n) (ado n))).

  (* ado1[jj] with Python's negative index -1 = the last ADO *)
  Definition ado_at (ado : nat -> @mat R) (j : option nat) : @mat R :=
    match j with Some i => ado i | None => ado (length H - 1)%nat end.

  (* one bath term of _ado_cros_rhs for ADO n *)
  Definition cros_term (dt : R) (ado : nat -> @mat R) (n k : nat) : @mat R :=
    let nk := nth k (nth n H []) 0%nat in
    let jm := nm1 H n k in
    let up :=          (* guard nk*jj >= 0: entered when nk = 0 (whatever jj) or jj >= 0 *)
      if (Nat.eqb nk 0) || (match jm with Some _ => true | None => false end)
      then madd (mscale (dt * ofnat nk * lam k * gam k) (acomm (Vs k) (ado_at ado jm)))
                (mscale (ii * dt * two * ofnat nk * lam k * kBT) (comm (Vs k) (ado_at ado jm)))
      else (fun _ _ => 0) in
    let dn :=          (* guard jj > 0 *)
      match np1 H n k with
      | Some (S j) => mscale (ii * dt) (comm (Vs k) (ado (S j)))
      | _ => (fun _ _ => 0)
      end in
    madd up dn.
  Definition cros_rhs (dt : R) (ado : nat -> @mat R) (n : nat) : @mat R :=
    fun a b => sum nb (fun k => cros_term dt ado n k a b).

  (* ado1 = cros + self *)
  Definition rhs (dt : R) (ado : nat -> @mat R) (n : nat) : @mat R := madd (cros_rhs dt ado n) (self_rhs dt ado n).
End RHS.
