(* Model of the collection of vibrational sub-modes in ElectronicState.__init__ (quantarhei/builders/aggregate_states.py):
     n = 0
     for mn in aggregate.monomers:
         for a in range(mn.nmod): vb_ls.append(mn.get_Mode(a).get_SubMode(elst[n]))
         n += 1
   the list ElectronicState.vibmodes that Model/C10.v takes as the function vm.  Executable definitions only. *)
From Coq Require Import List Arith.
From QV Require Import Model.C03.
Import ListNotations.

Section VibModes.
  Variable SM : Type.                          (* SubMode objects *)
  Variable submode_of : nat -> nat -> nat -> SM.   (* monomers[n].get_Mode(a).get_SubMode(level) *)
  Variable nmod : nat -> nat.                  (* monomers[n].nmod *)
  Definition vibmodes_of (N : nat) (s : sig) : list SM :=
    flat_map (fun n => map (fun a => submode_of n a (nth n s 0)) (seq 0 (nmod n))) (seq 0 N).
  (* position of mode a of molecule n in that list *)
  Definition mode_offset (n : nat) : nat := list_sum (map nmod (seq 0 n)).
End VibModes.
