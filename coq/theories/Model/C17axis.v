(* Model of the glue of the C17 code paths:
     poppropagator.py  get_PropagationMatrix: how the start of the sub-axis is reached (same start / whole number Ns of sub-axis
                       steps / one extra exponential for the remaining shift), U[:,:,0] = U0, U[:,:,i] = E . U[:,:,i-1]
     valueaxis.py      the grid (linspace), max, is_subset_of (Model/C17.v), is_extension_of
     ratematrix.py     RateMatrix.__init__: which of zeros / the given data / an exception
   Executable definitions only. *)
From Coq Require Import ZArith List Bool QArith Qcanon.
From QV Require Import Base.Alg Base.Sums Base.Mat Base.Util Model.C17.
Import ListNotations.

Section PM.
  Context {R : StarRing}.
  Open Scope sr_scope.
  Variable n : nat.
  (* E = exponential of one sub-axis step, Edt = exponential of the whole shift of the start (both oracles) *)
  Definition prop_U0 (E Edt : @mat R) (shifted whole : bool) (Ns : nat) : @mat R :=
    if shifted then (if whole then mpow_apply n Ns E mid else tab2 n n (mmul n Edt mid)) else mid.
  Definition prop_matrix_gen (E Edt : @mat R) (shifted whole : bool) (Ns i : nat) : @mat R :=
    mpow_apply n i E (prop_U0 E Edt shifted whole Ns).
  Definition zero_mat : @mat R := fun _ _ => 0.
End PM.

Definition pm_shifted (start sub_start : Q) : bool := negb (Qeq_bool start sub_start).
Definition pm_ns_arg (start sub_start sub_step : Q) : Q := (sub_start - start) / sub_step.     (* Ns = round(this) *)
Definition pm_whole (start sub_start sub_step : Q) (Ns : Z) : bool := Qeq_bool sub_start (start + inject_Z Ns * sub_step).
Definition pm_dt (start sub_start : Q) : Q := sub_start - start.

(* is_extension_of: self = ext, argument = ax *)
Definition is_extension_of (ext ax : axis) : bool :=
  let '(s1, len1, d1) := ext in let '(s, _, d) := ax in
  Qle_bool s1 s && Qeq_bool d1 d && Qle_bool (ax_max ax) (ax_max ext) &&
  existsb (fun k => ax_mem (ax_point ext k) ax) (seq 0 len1).

(* RateMatrix.__init__(dim, data): dim and the shape of data, when given *)
Inductive ctor_result := CtorRaise | CtorData (N : Z) | CtorZeros (N : Z).
Definition rm_ctor (dim : option Z) (shape : option (Z * Z)) : ctor_result :=
  let N := match dim with Some d => d | None => 0%Z end in
  match shape with
  | Some (r, c) => if negb (r =? c)%Z then CtorRaise else if (N =? 0)%Z then CtorData r else if (N =? r)%Z then CtorData N else CtorRaise
  | None => if (N =? 0)%Z then CtorRaise else CtorZeros N
  end.
