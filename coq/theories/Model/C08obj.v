(* Model of the bookkeeping of quantarhei/qm/liouvillespace/evolutionsuperoperator.py around the numerical kernels of
   Model/C08.v (time-independent generators):
     __init__ / _initialize_data    table of zeros with the identity written at time index 0 (mode "all", or save=True)
     set_dense_dt(N)                dense_time = TimeAxis(0, N+1, step/N)
     calculate_next(save=True)      state machine over `now` that fills the table index by index
     at(t), apply(t, rho)           data[locate t]  /  tensordot(data[i], rho) for one time, the object's own axis, any axis
     TimeAxis.locate                floor((t - start)/step) with its bounds check, over Q
   and of the object as a store of named fields, for re-use of one object (calculate, set_dense_dt, calculate again).
   Executable definitions only. *)
From Coq Require Import ZArith List Bool Arith QArith Qround.
From QV Require Import Base.Alg Base.Sums Base.Mat Base.Tens Base.TensId Model.C08.
Import ListNotations.

Section Obj.
  Context {R : StarRing}.
  Variable n : nat.

  Definition tzero : @tens R := fun _ _ _ _ => r0 R.
  Definition tupd (d : nat -> @tens R) (i : nat) (v : @tens R) : nat -> @tens R := fun j => if Nat.eqb j i then v else d j.

  (* the table _initialize_data leaves behind: the identity at the first time, zeros elsewhere *)
  Definition init_table : nat -> @tens R := fun t => match t with O => tid | S _ => tzero end.

  (* calculate(): initialise, store the first interval at index 1, fill the rest from it *)
  Definition calculate_table (Nt : nat) (Udt : @tens R) : list (@tens R) :=
    match Nt with
    | O => []
    | S O => [init_table 0%nat]
    | S (S k) => init_table 0%nat :: Udt :: calc_rest n k Udt Udt
    end.

  (* calculate_next(save=True): (now, table) *)
  Definition jit_next_save (Udt : @tens R) (s : nat * (nat -> @tens R)) : nat * (nat -> @tens R) :=
    match fst s with
    | O => (1%nat, tupd (snd s) 1 Udt)
    | S k => (S (S k), tupd (snd s) (S (S k)) (tab4 n (tcomp n Udt (snd s (S k)))))
    end.
  Definition jit_run_save (k : nat) (Udt : @tens R) : nat * (nat -> @tens R) := iter k (jit_next_save Udt) (0%nat, init_table).

  (* apply(t_i, rho), and apply over an axis of len points *)
  Definition apply_at (data : nat -> @tens R) (i : nat) (rho : @mat R) : @mat R := tapply n (data i) rho.
  Definition apply_axis (data : nat -> @tens R) (len : nat) (rho : @mat R) : list (@mat R) :=
    map (fun k => apply_at data k rho) (seq 0 len).
End Obj.

(* TimeAxis.locate: index of the grid interval that holds val, None for "Value out of bounds" *)
Definition locate (start step : Q) (length : nat) (val : Q) : option nat :=
  let k := Qfloor ((val - start) / step) in
  if (0 <=? k)%Z && (k <? Z.of_nat length)%Z then Some (Z.to_nat k) else None.
(* set_dense_dt(N): (length, step) of the dense axis *)
Definition dense_axis (step : Q) (N : nat) : nat * Q := (S N, step / inject_Z (Z.of_nat N)).

(* ---------------- the object as a store of fields; operations by what they read and write ---------------- *)
Inductive field := FTime | FHam | FRelt | FPdeph | FMode | FDim | FBlock | FDenseTime | FData | FNow | FUdt | FInRwa.
Definition field_eqb (a b : field) : bool :=
  match a, b with
  | FTime, FTime | FHam, FHam | FRelt, FRelt | FPdeph, FPdeph | FMode, FMode | FDim, FDim | FBlock, FBlock
  | FDenseTime, FDenseTime | FData, FData | FNow, FNow | FUdt, FUdt | FInRwa, FInRwa => true
  | _, _ => false
  end.
Definition subset (a b : list field) : bool := forallb (fun x => existsb (field_eqb x) b) a.

(* public operations of one object in mode "all" *)
Inductive op := OCalculate | OSetDense (N : nat) | OApply | OAt.
(* what calculate() needs from the object: its settings (data is re-initialised before it is read) *)
Definition calc_inputs : list field := [FMode; FTime; FDim; FPdeph; FRelt; FHam; FDenseTime].
Definition op_reads (o : op) : list field :=
  match o with OCalculate => calc_inputs | OSetDense _ => [FTime] | OApply => [FTime; FData] | OAt => [FTime; FData] end.
Definition op_writes (o : op) : list field :=
  match o with OCalculate => [FData; FInRwa] | OSetDense _ => [FDenseTime] | OApply => [] | OAt => [] end.
(* incremental mode *)
Definition next_reads : list field := [FMode; FTime; FDim; FPdeph; FRelt; FHam; FDenseTime; FNow; FUdt; FData].
Definition next_writes : list field := [FData; FNow; FUdt].

Section Frame.
  Variable V : Type.
  Definition ostate := field -> V.
  Definition agree (fs : list field) (s s' : ostate) : Prop := forall f, In f fs -> s f = s' f.
  (* an operation that writes only wr, and whose written values depend only on the fields rd *)
  Definition respects (o : ostate -> ostate) (rd wr : list field) : Prop :=
    (forall s f, ~ In f wr -> o s f = s f) /\ (forall s s', agree rd s s' -> agree wr (o s) (o s')).
  Definition run (sem : op -> ostate -> ostate) (h : list op) (s : ostate) : ostate := fold_left (fun s o => sem o s) h s.
End Frame.
