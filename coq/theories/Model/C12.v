(* Model of the third-order response machinery:
   quantarhei/spectroscopy/labsetup.py (LabSetup.__init__: M4; set_pulse_polarizations: F4e, F4eM4),
   quantarhei/spectroscopy/diagramatics.py (liouville_pathway.add_transition / add_transfer / build /
   orientational_averaging), quantarhei/builders/aggregate_spectroscopy.py (liouville_pathways_3T,
   generate_R1g, R2g, R3g, R4g, R1f, R2f), quantarhei/spectroscopy/mocktwodcalculator.py
   (calculate_pathway: centres, width selection, prefactor; calculate_one: signal bookkeeping through the
   storage model of Model/C19.v).  Executable definitions only.
   The scalar type is any commutative ring; line shapes, thresholds and the diagonalisation are oracles:
   the selection flags (D2 > dip_tol, rho0 > pop_tol, |evf| > evf_tol) are data of the system record. *)
From Coq Require Import ZArith List Bool QArith Qcanon Qabs.
From QV Require Import Base.Alg Base.Util Model.C19.
Import ListNotations.

Section Model.
  Context {R : StarRing}.
  Open Scope sr_scope.

  (* ---------------- vectors in three dimensions ---------------- *)
  Definition vec3 := (R * R * R)%type.
  Definition vx (v : vec3) : R := fst (fst v).
  Definition vy (v : vec3) : R := snd (fst v).
  Definition vz (v : vec3) : R := snd v.
  Definition dot (u v : vec3) : R := vx u * vx v + vy u * vy v + vz u * vz v.
  Definition vscale (s : R) (v : vec3) : vec3 := (s * vx v, s * vy v, s * vz v).
  Definition vadd (u v : vec3) : vec3 := (vx u + vx v, vy u + vy v, vz u + vz v).
  Definition vzero : vec3 := (0, 0, 0).
  Definition mat3 := (vec3 * vec3 * vec3)%type.            (* three rows *)
  Definition row0 (M : mat3) : vec3 := fst (fst M).
  Definition row1 (M : mat3) : vec3 := snd (fst M).
  Definition row2 (M : mat3) : vec3 := snd M.
  Definition mv3 (M : mat3) (v : vec3) : vec3 := (dot (row0 M) v, dot (row1 M) v, dot (row2 M) v).
  Definition col (M : mat3) (k : nat) : vec3 :=
    match k with
    | O => (vx (row0 M), vx (row1 M), vx (row2 M))
    | S O => (vy (row0 M), vy (row1 M), vy (row2 M))
    | _ => (vz (row0 M), vz (row1 M), vz (row2 M))
    end.
  (* Q^T Q = 1 *)
  Definition orthogonal (Q : mat3) : Prop :=
    dot (col Q 0) (col Q 0) = 1 /\ dot (col Q 1) (col Q 1) = 1 /\ dot (col Q 2) (col Q 2) = 1 /\
    dot (col Q 0) (col Q 1) = 0 /\ dot (col Q 0) (col Q 2) = 0 /\ dot (col Q 1) (col Q 2) = 0.

  (* ---------------- orientational average ---------------- *)
  (* the three pairings, as set_pulse_polarizations (F4e) and liouville_pathway.build (F4n) form them;
     index 3 is the last interaction / the detection polarisation *)
  Definition F4 (v0 v1 v2 v3 : vec3) : vec3 :=
    (dot v3 v2 * dot v1 v0, dot v3 v1 * dot v2 v0, dot v3 v0 * dot v2 v1).
  Definition two : R := 1 + 1.
  Definition four : R := two + two.
  (* numpy.dot(F4e, M4) with M4 = th * [[4,-1,-1],[-1,4,-1],[-1,-1,4]], th = 1/30 *)
  Definition F4eM4 (th : R) (f : vec3) : vec3 :=
    (th * (four * vx f - vy f - vz f), th * (four * vy f - vx f - vz f), th * (four * vz f - vx f - vy f)).
  (* numpy.dot(lab.F4eM4, self.F4n) *)
  Definition orient (th : R) (e0 e1 e2 e3 d0 d1 d2 d3 : vec3) : R :=
    dot (F4eM4 th (F4 e0 e1 e2 e3)) (F4 d0 d1 d2 d3).
  (* the same without the factor 1/30 (division free form used by the theorems) *)
  Definition orient30 (e0 e1 e2 e3 d0 d1 d2 d3 : vec3) : R := orient 1 e0 e1 e2 e3 d0 d1 d2 d3.
  (* the integrand of the orientational average for one orientation Q of the molecule *)
  Definition proj4 (Q : mat3) (e0 e1 e2 e3 d0 d1 d2 d3 : vec3) : R :=
    dot e0 (mv3 Q d0) * dot e1 (mv3 Q d1) * dot e2 (mv3 Q d2) * dot e3 (mv3 Q d3).
  Definition lsumR (l : list R) : R := fold_right (fun v a => v + a) 0 l.
  Definition group_sum (G : list mat3) (e0 e1 e2 e3 d0 d1 d2 d3 : vec3) : R :=
    lsumR (map (fun Q => proj4 Q e0 e1 e2 e3 d0 d1 d2 d3) G).

  (* ---------------- the system seen by the pathway generators ---------------- *)
  Record sys := mkSys {
    ngs : list nat; nes : list nat; nfs : list nat;     (* state indices of the three bands *)
    En : nat -> R;                                       (* HH[n,n] *)
    DD : nat -> nat -> vec3;                             (* DD[n,m,:] *)
    rho : nat -> R;                                      (* Re rho0[n,n] *)
    U : nat -> nat -> nat -> nat -> R;                   (* eUt2_dat *)
    wid : nat -> nat -> R;                               (* get_transition_width((n,m)) *)
    dep : nat -> nat -> R;                               (* get_transition_dephasing((n,m)) *)
    bigD : nat -> nat -> bool;                           (* D2[n,m] > dip_tol *)
    popb : nat -> bool;                                  (* rho0[n,n] > pop_tol *)
    evb : nat -> nat -> nat -> nat -> bool               (* abs(eUt2[..]) > evf_tol *)
  }.

  (* events of a double-sided diagram *)
  Inductive event :=
  | ET (nf ni : nat) (left : bool) (interval : nat) (w g : R)   (* add_transition((nf,ni), side, interval, width, deph) *)
  | EX (fl fr : nat).                                           (* add_transfer((fl,fr), (current)) *)

  Record pway := mkPw {
    pw_name : ptype;             (* R1g ... R2f* *)
    pw_reph : bool;              (* pathway_type "R" (true) or "NR" *)
    pw_trans : list (nat * nat); (* transitions *)
    pw_sign : R;                 (* prod(sides) *)
    pw_F4n : vec3;
    pw_freq : list R;            (* frequency array *)
    pw_w1 : R; pw_w3 : R; pw_g1 : R; pw_g3 : R;   (* widths[1], widths[3], dephs[1], dephs[3] *)
    pw_evf : R;                  (* evolfac *)
    pw_rho : R;                  (* Re rho0[n0,n0], n0 = transitions[0,1] *)
    pw_ok : bool                 (* every consistency check of add_transition / add_transfer passed *)
  }.

  Definition mone : R := - (1).
  Fixpoint ev_trans (evs : list event) : list (nat * nat) :=
    match evs with [] => [] | ET nf ni _ _ _ _ :: r => (nf, ni) :: ev_trans r | EX _ _ :: r => ev_trans r end.
  Fixpoint ev_sign (evs : list event) : R :=
    match evs with
    | [] => 1
    | ET _ _ l _ _ _ :: r => (if l then 1 else mone) * ev_sign r
    | EX _ _ :: r => ev_sign r
    end.
  (* frequency[ne] = HH[cur0] - HH[cur1] after each of the first three interactions and after a transfer *)
  Fixpoint ev_freq (E : nat -> R) (evs : list event) (cur : nat * nat) (nint : nat) : list R :=
    match evs with
    | [] => []
    | ET nf _ l _ _ _ :: r =>
        let cur' := if l then (nf, snd cur) else (fst cur, nf) in
        (if Nat.ltb nint 3 then E (fst cur') - E (snd cur') else 0) :: ev_freq E r cur' (S nint)
    | EX fl fr :: r => (E fl - E fr) :: ev_freq E r (fl, fr) nint
    end.
  (* the checks "transition has to start from the current state" *)
  Fixpoint ev_ok (evs : list event) (cur : nat * nat) : bool :=
    match evs with
    | [] => true
    | ET nf ni l _ _ _ :: r =>
        Nat.eqb (if l then fst cur else snd cur) ni && ev_ok r (if l then (nf, snd cur) else (fst cur, nf))
    | EX fl fr :: r => ev_ok r (fl, fr)
    end.
  Fixpoint ev_width (k : nat) (evs : list event) (acc : R * R) : R * R :=
    match evs with
    | [] => acc
    | ET _ _ _ i w g :: r => ev_width k r (if Nat.eqb i k then (w, g) else acc)
    | EX _ _ :: r => ev_width k r acc
    end.
  Definition nthv (l : list vec3) (k : nat) : vec3 := nth k l vzero.

  (* liouville_pathway(...); add_transition ...; build() *)
  Definition mkpath (S : sys) (name : ptype) (reph : bool) (i1g : nat) (evf : R) (evs : list event) : pway :=
    let tr := ev_trans evs in
    let dm := map (fun t => DD S (fst t) (snd t)) tr in
    let wg1 := ev_width 1 evs (mone, mone) in
    let wg3 := ev_width 3 evs (mone, mone) in
    mkPw name reph tr (ev_sign evs) (F4 (nthv dm 0) (nthv dm 1) (nthv dm 2) (nthv dm 3))
         (ev_freq (En S) evs (i1g, 0%nat) 0)
         (fst wg1) (fst wg3) (snd wg1) (snd wg3) evf
         (rho S (snd (nth 0 tr (0%nat, 0%nat))))
         (ev_ok evs (i1g, 0%nat)).

  Definition when {A} (b : bool) (l : list A) : list A := if b then l else [].
  (* name, rephasing, initial state, evolution factor, events -> pathway *)
  Definition maker := ptype -> bool -> nat -> R -> list event -> pway.

  Definition gen_R1g_with (mk : maker) (S : sys) : list pway :=
    flat_map (fun i1g => when (popb S i1g) (
    flat_map (fun i2e => when (bigD S i2e i1g) (
    flat_map (fun i3e => when (bigD S i3e i1g) (
    flat_map (fun i2d => flat_map (fun i3d =>
      let evf := U S i2d i3d i2e i3e in when (evb S i2d i3d i2e i3e) (
      flat_map (fun i4g => when (bigD S i4g i3d && bigD S i4g i2d)
        [mk R1g false i1g evf
           [ET i2e i1g true 1 (wid S i2e i1g) (dep S i2e i1g); ET i3e i1g false 0 mone mone; EX i2d i3d;
            ET i4g i3d false 0 mone mone; ET i4g i2d true 3 (wid S i2d i4g) (dep S i2d i4g)]])
      (ngs S))) (nes S)) (nes S))) (nes S))) (nes S))) (ngs S).

  Definition gen_R2g_with (mk : maker) (S : sys) : list pway :=
    flat_map (fun i1g => when (popb S i1g) (
    flat_map (fun i2e => when (bigD S i2e i1g) (
    flat_map (fun i3e => when (bigD S i3e i1g) (
    flat_map (fun i3d => flat_map (fun i2d =>
      let evf := U S i3d i2d i3e i2e in when (evb S i3d i2d i3e i2e) (
      flat_map (fun i4g => when (bigD S i4g i2e && bigD S i4g i3e)
        [mk R2g true i1g evf
           [ET i2e i1g false 1 (wid S i2e i1g) (dep S i2e i1g); ET i3e i1g true 0 mone mone; EX i3d i2d;
            ET i4g i2d false 0 mone mone; ET i4g i3d true 3 (wid S i3d i4g) (dep S i3d i4g)]])
      (ngs S))) (nes S)) (nes S))) (nes S))) (nes S))) (ngs S).

  Definition gen_R3g_with (mk : maker) (S : sys) : list pway :=
    flat_map (fun i1g => when (popb S i1g) (
    flat_map (fun i2e => when (bigD S i2e i1g) (
    flat_map (fun i3g => when (bigD S i3g i2e) (
      let evf := U S i1g i3g i1g i3g in
      flat_map (fun i4e => when (bigD S i4e i1g && bigD S i3g i4e)
        [mk R3g true i1g evf
           [ET i2e i1g false 1 (wid S i2e i1g) (dep S i2e i1g); ET i3g i2e false 0 mone mone;
            ET i4e i1g true 0 mone mone; ET i3g i4e true 3 (wid S i4e i3g) (dep S i4e i3g)]])
      (nes S))) (ngs S))) (nes S))) (ngs S).

  Definition gen_R4g_with (mk : maker) (S : sys) : list pway :=
    flat_map (fun i1g => when (popb S i1g) (
    flat_map (fun i2e => when (bigD S i2e i1g) (
    flat_map (fun i3g => when (bigD S i3g i2e) (
      let evf := U S i1g i3g i1g i3g in
      flat_map (fun i4e => when (bigD S i4e i3g && bigD S i1g i4e)
        [mk R4g false i1g evf
           [ET i2e i1g true 1 (wid S i2e i1g) (dep S i2e i1g); ET i3g i2e true 0 mone mone;
            ET i4e i3g true 0 mone mone; ET i1g i4e true 3 (wid S i4e i1g) (dep S i4e i1g)]])
      (nes S))) (ngs S))) (nes S))) (ngs S).

  Definition gen_R1f_with (mk : maker) (S : sys) : list pway :=
    flat_map (fun i1g => when (popb S i1g) (
    flat_map (fun i2e => when (bigD S i2e i1g) (
    flat_map (fun i3e => when (bigD S i3e i1g) (
    flat_map (fun i3d => flat_map (fun i2d =>
      let evf := U S i3d i2d i3e i2e in when (evb S i3d i2d i3e i2e) (
      flat_map (fun i4f => when (bigD S i4f i3d && bigD S i2d i4f)
        [mk R1fs true i1g evf
           [ET i2e i1g false 1 (wid S i2e i1g) (dep S i2e i1g); ET i3e i1g true 0 mone mone; EX i3d i2d;
            ET i4f i3d true 0 mone mone; ET i2d i4f true 3 (wid S i4f i2d) (dep S i4f i2d)]])
      (nfs S))) (nes S)) (nes S))) (nes S))) (nes S))) (ngs S).

  Definition gen_R2f_with (mk : maker) (S : sys) : list pway :=
    flat_map (fun i1g => when (popb S i1g) (
    flat_map (fun i2e => when (bigD S i2e i1g) (
    flat_map (fun i3e => when (bigD S i3e i1g) (
    flat_map (fun i2d => flat_map (fun i3d =>
      let evf := U S i2d i3d i2e i3e in when (evb S i2d i3d i2e i3e) (
      flat_map (fun i4f => when (bigD S i4f i2d && bigD S i3d i4f)
        [mk R2fs false i1g evf
           [ET i2e i1g true 1 (wid S i2e i1g) (dep S i2e i1g); ET i3e i1g false 0 mone mone; EX i2d i3d;
            ET i4f i2d true 0 mone mone; ET i3d i4f true 3 (wid S i4f i3d) (dep S i4f i3d)]])
      (nfs S))) (nes S)) (nes S))) (nes S))) (nes S))) (ngs S).

  (* liouville_pathways_3T with the tuples used by MockTwoDResponseCalculator.calculate_one_system *)
  Definition gen4_with (mk : maker) (S : sys) : list pway :=
    gen_R1g_with mk S ++ gen_R2g_with mk S ++ gen_R3g_with mk S ++ gen_R4g_with mk S.
  Definition gen6_with (mk : maker) (S : sys) : list pway := gen4_with mk S ++ gen_R1f_with mk S ++ gen_R2f_with mk S.
  Definition gen4 (S : sys) : list pway := gen4_with (mkpath S) S.
  Definition gen6 (S : sys) : list pway := gen6_with (mkpath S) S.

  (* orientational_averaging(lab): pref = sign*(dot(F4eM4, F4n)*Re rho0[n0,n0])*evolfac *)
  Definition pref (FM : vec3) (p : pway) : R := pw_sign p * (dot FM (pw_F4n p) * pw_rho p) * pw_evf p.
  Definition lab_FM (th : R) (e0 e1 e2 e3 : vec3) : vec3 := F4eM4 th (F4 e0 e1 e2 e3).

  (* ---------------- MockTwoDResponseCalculator.calculate_pathway ---------------- *)
  Section Calc.
    Variable L : bool -> bool -> R -> R -> R -> R -> R.   (* shape (true = Gaussian), rephasing, cen1, width1, cen3, width3
                                                             -> value of the normalised 2D line shape at one grid point *)
    Variable neg : R -> bool.                              (* x < 0.0 *)
    Variable dflt : R.                                     (* widthx = widthy = dephx = dephy of the calculator *)
    Definition sel (c x : R) : R := if neg c then dflt else x.
    (* the pinned code tests widths[3] when it selects dephy *)
    Definition contrib (gauss : bool) (FM : vec3) (p : pway) : R :=
      let cen1 := nth 0 (pw_freq p) 0 in
      let cen3 := nth (length (pw_freq p) - 2)%nat (pw_freq p) 0 in
      let wx := sel (pw_w1 p) (pw_w1 p) in let wy := sel (pw_w3 p) (pw_w3 p) in
      let gx := sel (pw_g1 p) (pw_g1 p) in let gy := sel (pw_w3 p) (pw_g3 p) in
      pref FM p * (if gauss then L true (pw_reph p) cen1 wx cen3 wy else L false (pw_reph p) cen1 gx cen3 gy).
    Definition response (gauss : bool) (FM : vec3) (ps : list pway) : R :=
      lsumR (map (contrib gauss FM) ps).
    (* calculate_one: set_resolution("signals"); add zeros to REPH and NONR; add every pathway to its signal *)
    Definition calc_ops (gauss : bool) (FM : vec3) (ps : list pway) : list (@op R) :=
      OSetRes (Some Signals) :: OAdd 0 None (DS REPH) None :: OAdd 0 None (DS NONR) None ::
      map (fun p => OAdd (contrib gauss FM p) None (DS (if pw_reph p then REPH else NONR)) None) ps.
    Definition calc_store (gauss : bool) (FM : vec3) (ps : list pway) : @st R :=
      fst (run NoneTagRefused fresh (calc_ops gauss FM ps)).
  End Calc.

  (* ---------------- aggregates of uncoupled two-level molecules ---------------- *)
  (* states: 0 ground; 1..N one molecule excited; N+1+k the k-th pair (p<q) in lexicographic order *)
  Definition pairs (N : nat) : list (nat * nat) :=
    flat_map (fun p => map (fun q => (p, q)) (seq (S p) (N - S p)%nat)) (seq 0 N).
  Definition band (N n : nat) : nat := if Nat.eqb n 0 then 0%nat else if Nat.leb n N then 1%nat else 2%nat.
  Definition pair_of (N f : nat) : nat * nat := nth (f - N - 1)%nat (pairs N) (0%nat, 0%nat).
  Definition other (pq : nat * nat) (a : nat) : option nat :=
    if Nat.eqb a (fst pq) then Some (snd pq) else if Nat.eqb a (snd pq) then Some (fst pq) else None.
  (* the molecule whose transition connects the two states, if any *)
  Definition link (N n m : nat) : option nat :=
    let bn := band N n in let bm := band N m in
    if Nat.eqb bn 1 && Nat.eqb bm 0 then Some (Nat.pred n)
    else if Nat.eqb bn 0 && Nat.eqb bm 1 then Some (Nat.pred m)
    else if Nat.eqb bn 2 && Nat.eqb bm 1 then other (pair_of N n) (Nat.pred m)
    else if Nat.eqb bn 1 && Nat.eqb bm 2 then other (pair_of N m) (Nat.pred n)
    else None.
  (* the one-exciton state of a 1<->2 transition *)
  Definition lower (N n m : nat) : nat := if Nat.eqb (band N n) 1 then Nat.pred n else Nat.pred m.

  Section Uncoupled.
    Variable N : nat.
    Variable om : nat -> R.        (* transition energies *)
    Variable dip : nat -> vec3.    (* transition dipoles *)
    Variable wd : nat -> R.        (* Gaussian widths *)
    Variable ga : nat -> R.        (* Lorentzian dephasings *)
    Variable coh : nat -> nat -> R. (* evolution of the one-exciton coherences during t2 (1 for identity evolution) *)
    Variable bigd : nat -> bool.   (* |d_a|^2 > dip_tol *)
    Definition usys : sys :=
      mkSys [0%nat] (seq 1 N) (seq (S N) (length (pairs N)))
        (fun n => if Nat.eqb (band N n) 0 then 0 else if Nat.eqb (band N n) 1 then om (Nat.pred n)
                  else om (fst (pair_of N n)) + om (snd (pair_of N n)))
        (fun n m => match link N n m with Some a => dip a | None => vzero end)
        (fun n => if Nat.eqb n 0 then 1 else 0)
        (fun a b c d => if Nat.eqb a c && Nat.eqb b d then (if Nat.eqb a b then 1 else coh (Nat.pred a) (Nat.pred b)) else 0)
        (fun n m => match link N n m with Some a => wd a | None => 0 end)
        (* the pinned code: Dr[f,f] = Dr[f,a] = 0, so a 1<->2 transition gets the dephasing of its one-exciton state *)
        (fun n m => match link N n m with
                    | Some a => if Nat.eqb (band N n + band N m)%nat 3 then ga (lower N n m) else ga a
                    | None => 0 end)
        (fun n m => match link N n m with Some a => bigd a | None => false end)
        (fun n => Nat.eqb n 0)
        (fun a b c d => Nat.eqb a c && Nat.eqb b d).
  End Uncoupled.
  (* molecule a on its own (an aggregate of one molecule; no two-exciton band) *)
  Definition monomer (om : nat -> R) (dip : nat -> vec3) (wd ga : nat -> R) (bigd : nat -> bool) (a : nat) : sys :=
    usys 1 (fun _ => om a) (fun _ => dip a) (fun _ => wd a) (fun _ => ga a) (fun _ _ => 1) (fun _ => bigd a).

  (* rotating / scaling all transition dipoles of a system *)
  Definition map_dip (f : vec3 -> vec3) (S : sys) : sys :=
    mkSys (ngs S) (nes S) (nfs S) (En S) (fun n m => f (DD S n m)) (rho S) (U S) (wid S) (dep S) (bigD S) (popb S) (evb S).
End Model.

(* ---------------------------------------------------------------------------------- *)
(*  The ring Z[phi], phi^2 = phi + 1 (for the icosahedral rotation group)             *)
(* ---------------------------------------------------------------------------------- *)
Definition ZP := (Z * Z)%type.      (* a + b phi *)
Definition zp_add (x y : ZP) : ZP := (fst x + fst y, snd x + snd y)%Z.
Definition zp_mul (x y : ZP) : ZP := (fst x * fst y + snd x * snd y, fst x * snd y + snd x * fst y + snd x * snd y)%Z.
Definition zp_opp (x : ZP) : ZP := (- fst x, - snd x)%Z.
Definition zp_sub (x y : ZP) : ZP := (fst x - fst y, snd x - snd y)%Z.
Definition zp_eqb (x y : ZP) : bool := Z.eqb (fst x) (fst y) && Z.eqb (snd x) (snd y).

(* ---------------------------------------------------------------------------------- *)
(*  executable instance over the Gaussian rationals for the correspondence check       *)
(* ---------------------------------------------------------------------------------- *)
Local Open Scope Q_scope.
Definition c2 (q : Q * Q) : GQ := q2gq (fst q) (snd q).
Definition r2 (q : Q) : GQ := q2gq q 0.
Definition v2 (l : list Q) : @vec3 GQ := (r2 (nth 0%nat l 0), r2 (nth 1%nat l 0), r2 (nth 2%nat l 0)).
Definition nth2 {A} (d : A) (t : list (list A)) (n m : nat) : A := nth m (nth n t []) d.
Definition gq_abs_gt (tol : Q) (z : GQ) : bool :=   (* |z| > tol, tol >= 0 *)
  negb (Qle_bool (this (fst z) * this (fst z) + this (snd z) * this (snd z)) (tol * tol)).

(* what the harness observed of the aggregate: bands, HH diagonal, DD, D2, rho0 diagonal, evolution
   superoperator entries of the one-exciton block (dimension nU), width and dephasing tables, tolerances *)
Record obs := mkObs {
  o_ngs : list nat; o_nes : list nat; o_nfs : list nat;
  o_E : list Q; o_DD : list (list (list Q)); o_D2 : list (list Q); o_rho : list Q;
  o_U : list (list (list (list (Q * Q))));
  o_wid : list (list Q); o_dep : list (list Q);
  o_poptol : Q; o_diptol : Q; o_evftol : Q
}.
Definition U_at (o : obs) (a b c d : nat) : Q * Q := nth d (nth c (nth b (nth a (o_U o) []) []) []) (0, 0).
Definition sys_of (o : obs) : @sys GQ :=
  mkSys (o_ngs o) (o_nes o) (o_nfs o)
    (fun n => r2 (nth n (o_E o) 0))
    (fun n m => v2 (nth2 [] (o_DD o) n m))
    (fun n => r2 (nth n (o_rho o) 0))
    (fun a b c d => c2 (U_at o a b c d))
    (fun n m => r2 (nth2 0 (o_wid o) n m))
    (fun n m => r2 (nth2 0 (o_dep o) n m))
    (fun n m => negb (Qle_bool (nth2 0 (o_D2 o) n m) (o_diptol o)))
    (fun n => negb (Qle_bool (nth n (o_rho o) 0) (o_poptol o)))
    (fun a b c d => gq_abs_gt (o_evftol o) (c2 (U_at o a b c d))).

(* one pathway as the implementation shows it *)
Record opw := mkOpw {
  p_name : nat; p_reph : bool; p_trans : list (nat * nat); p_sign : Z; p_F4n : list Q; p_freq : list Q;
  p_w1 : Q; p_w3 : Q; p_g1 : Q; p_g3 : Q; p_evf : Q * Q; p_pref : Q * Q
}.
Definition ptype_num (p : ptype) : nat :=
  (match p with R1g => 0 | R2g => 1 | R3g => 2 | R4g => 3 | R1fs => 4 | R2fs => 5 | R3fs => 6 | R4fs => 7 end)%nat.
(* |x - y| <= tol * (1 + |y|), componentwise *)
Definition qclose (tol : Q) (x : QR) (y : Q) : bool := Qle_bool (Qabs (this x - y)) (tol * (1 + Qabs y)).
Definition gclose (tol : Q) (x : GQ) (y : Q * Q) : bool :=
  let s := 1 + Qabs (fst y) + Qabs (snd y) in
  Qle_bool (Qabs (this (fst x) - fst y)) (tol * s) && Qle_bool (Qabs (this (snd x) - snd y)) (tol * s).
Definition rclose (tol : Q) (x : GQ) (y : Q) : bool := gclose tol x (y, 0).
Definition pair_eqb (a b : nat * nat) : bool := Nat.eqb (fst a) (fst b) && Nat.eqb (snd a) (snd b).
Definition pw_agrees (tol : Q) (FM : @vec3 GQ) (m : @pway GQ) (i : opw) : bool :=
  Nat.eqb (ptype_num (pw_name m)) (p_name i) && Bool.eqb (pw_reph m) (p_reph i) &&
  all2 pair_eqb (pw_trans m) (p_trans i) &&
  gq_eqb (pw_sign m) (r2 (inject_Z (p_sign i))) &&
  all2 (rclose tol) [vx (pw_F4n m); vy (pw_F4n m); vz (pw_F4n m)] (p_F4n i) &&
  all2 (rclose tol) (pw_freq m) (p_freq i) &&
  rclose tol (pw_w1 m) (p_w1 i) && rclose tol (pw_w3 m) (p_w3 i) &&
  rclose tol (pw_g1 m) (p_g1 i) && rclose tol (pw_g3 m) (p_g3 i) &&
  gclose tol (pw_evf m) (p_evf i) && gclose tol (pref FM m) (p_pref i) && pw_ok m.

(* a case: observed system, polarisations e0..e3, the F4eM4 the LabSetup holds, the generated list *)
Definition case12 := (obs * list (list Q) * list Q * bool * list opw)%type.
Definition th30 : GQ := r2 (1 # 30).
Definition case_FM (c : case12) : @vec3 GQ :=
  let '(_, es, _, _, _) := c in lab_FM th30 (v2 (nth 0%nat es [])) (v2 (nth 1%nat es [])) (v2 (nth 2%nat es [])) (v2 (nth 3%nat es [])).
Definition case_agrees (tol : Q) (c : case12) : bool :=
  let '(o, es, fm, esa, pws) := c in
  let FM := case_FM c in
  all2 (rclose tol) [vx FM; vy FM; vz FM] fm &&
  all2 (pw_agrees tol FM) (if esa then gen6 (sys_of o) else gen4 (sys_of o)) pws.

(* uncoupled aggregates: the abstract system [usys] against the same observations; the pathway lists are
   compared in everything but the state labels of the two-exciton band *)
Definition ucase := (nat * list Q * list (list Q) * list Q * list Q * list bool * list (list Q) * list opw)%type.
Definition usys_of (N : nat) (om : list Q) (dip : list (list Q)) (wd ga : list Q) (bigd : list bool) : @sys GQ :=
  usys N (fun a => r2 (nth a om 0)) (fun a => v2 (nth a dip [])) (fun a => r2 (nth a wd 0)) (fun a => r2 (nth a ga 0))
       (fun _ _ => r1 GQ) (fun a => nth a bigd false).
Definition ucase_agrees (tol : Q) (c : ucase) : bool :=
  let '(N, om, dip, wd, ga, bigd, es, pws) := c in
  let FM := lab_FM th30 (v2 (nth 0%nat es [])) (v2 (nth 1%nat es [])) (v2 (nth 2%nat es [])) (v2 (nth 3%nat es [])) in
  all2 (pw_agrees tol FM) (gen6 (usys_of N om dip wd ga bigd)) pws.
