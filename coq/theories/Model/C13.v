(* Model of quantarhei/core/time.py (TimeAxis.get_FrequencyAxis), quantarhei/core/frequency.py
   (FrequencyAxis.get_TimeAxis) and quantarhei/core/dfunction.py (DFunction.get_Fourier_transform,
   get_inverse_Fourier_transform).  Executable definitions only.

   Axes live in a field (2 pi is an abstract element [tp]); function values live in a commutative ring
   with involution.  numpy.fft.fft / ifft are oracles: the list programs take them as arguments. *)
From Coq Require Import ZArith List Bool Arith QArith Qcanon Qabs Field.
From QV Require Import Base.Alg Base.Sums Base.Util Base.Dft.
Import ListNotations.

(* ---------------------------------------------------------------------------------- *)
(*  conjugate axes                                                                    *)
(* ---------------------------------------------------------------------------------- *)
Record Fld := mkFld {
  fcar :> Type;
  f0 : fcar; f1 : fcar;
  fadd : fcar -> fcar -> fcar; fmul : fcar -> fcar -> fcar; fsub : fcar -> fcar -> fcar;
  fopp : fcar -> fcar; fdiv : fcar -> fcar -> fcar; finv : fcar -> fcar;
  fth : field_theory f0 f1 fadd fmul fsub fopp fdiv finv (@eq fcar)
}.

Inductive atype := Complete | UpperHalf.
Definition atype_eqb (a b : atype) : bool :=
  match a, b with Complete, Complete => true | UpperHalf, UpperHalf => true | _, _ => false end.

Section Axes.
  Variable K : Fld.
  Variable tp : K.                                   (* 2 pi *)
  Local Notation "x + y" := (fadd K x y).
  Local Notation "x - y" := (fsub K x y).
  Local Notation "x * y" := (fmul K x y).
  Local Notation "x / y" := (fdiv K x y).

  Fixpoint ofnat (n : nat) : K := match n with O => f0 K | S k => ofnat k + f1 K end.

  (* start, length, step, type, origin kept of the conjugate axis (frequency_start / time_start) *)
  Record axis := mkAxis { a_start : K; a_len : nat; a_step : K; a_type : atype; a_conj : K }.

  (* point k of numpy.fft.fftshift(numpy.fft.fftfreq(n, d)):  (k - n//2) / (n d) *)
  Definition fftfreq_shifted (n : nat) (d : K) (k : nat) : K := (ofnat k - ofnat (n / 2)) / (ofnat n * d).
  (* ValueAxis.data[k] (numpy.linspace) *)
  Definition point (a : axis) (k : nat) : K := a_start a + ofnat k * a_step a.

  (* TimeAxis.get_FrequencyAxis; None = the call raises (frequencies[1] does not exist) *)
  Definition freq_axis_of (t : axis) : option axis :=
    match a_type t with
    | Complete =>
        let n := a_len t in
        let fr k := tp * fftfreq_shifted n (a_step t) k in
        if (n <? 2)%nat then None
        else Some (mkAxis (fr 0%nat + a_conj t) n (fr 1%nat - fr 0%nat) Complete (point t (n / 2)))
    | UpperHalf =>
        let n := (2 * a_len t)%nat in
        let fr k := tp * fftfreq_shifted n (a_step t) k in
        if (n <? 2)%nat then None
        else Some (mkAxis (fr 0%nat + a_conj t) n (fr 1%nat - fr 0%nat) UpperHalf (a_start t))
    end.

  (* FrequencyAxis.get_TimeAxis; None = the call raises *)
  Definition time_axis_of (w : axis) : option axis :=
    match a_type w with
    | Complete =>
        let n := a_len w in
        let tm k := fftfreq_shifted n (a_step w / tp) k in
        if (n <? 2)%nat then None
        else Some (mkAxis (a_conj w + tm 0%nat) n (tm 1%nat - tm 0%nat) Complete (point w (n / 2)))
    | UpperHalf =>
        let n := a_len w in
        let tm k := tp * fftfreq_shifted n (a_step w) k in
        if negb (Nat.even n) then None          (* "Cannot create upper-half TimeAxis from an odd number of points" *)
        else if (n <? 2)%nat then None
        else Some (mkAxis (tm (n / 2)%nat + a_conj w) (n / 2) (tm 1%nat - tm 0%nat) UpperHalf (point w (n / 2)))
    end.
End Axes.

Arguments mkAxis {K}.
Arguments a_start {K}. Arguments a_len {K}. Arguments a_step {K}. Arguments a_type {K}. Arguments a_conj {K}.

(* ---------------------------------------------------------------------------------- *)
(*  transforms of the values                                                          *)
(* ---------------------------------------------------------------------------------- *)
(* Pinned = the code as found (inner shift is fftshift), Repaired = inner shift is ifftshift *)
Inductive variant := Pinned | Repaired.

Section Transforms.
  Context {R : StarRing}.
  Open Scope sr_scope.
  Variables fft ifft : list R -> list R.            (* numpy.fft.fft, numpy.fft.ifft: oracles *)

  Definition inner (v : variant) (y : list R) : list R :=
    match v with Pinned => fftshift y | Repaired => ifftshift y end.

  (* fill of the negative-time half:  yy[0:N] = y, yy[N] = 0, yy[2N-m] = conj(y[m]) for m = 1..N-1 *)
  Definition herm (y : list R) : list R := y ++ [0] ++ rev (map (cj R) (tl y)).
  (* Y[N:2N] *)
  Definition upper_part (n : nat) (Y : list R) : list R := firstn n (skipn n Y).

  Definition two : R := 1 + 1.

  (* get_Fourier_transform, TimeAxis:  d = t.step *)
  Definition ft_time (v : variant) (a : atype) (d : R) (y : list R) : list R :=
    match a with
    | Complete => map (fun z => natR (length y) * z * d) (fftshift (ifft (inner v y)))
    | UpperHalf => map (fun z => two * natR (length y) * z * d) (fftshift (ifft (herm y)))
    end.

  (* get_inverse_Fourier_transform, FrequencyAxis:  dw = w.step, itp = 1/(2 pi) *)
  Definition ift_freq (v : variant) (a : atype) (dw itp : R) (y : list R) : list R :=
    let Y := map (fun z => z * dw * itp) (fftshift (fft (inner v y))) in
    match a with Complete => Y | UpperHalf => upper_part (length y / 2) Y end.

  (* get_inverse_Fourier_transform, TimeAxis *)
  Definition ift_time (v : variant) (a : atype) (d : R) (y : list R) : list R :=
    match a with
    | Complete => map (fun z => z * d) (fftshift (fft (inner v y)))
    | UpperHalf => map (fun z => two * z * d) (fftshift (fft (herm y)))
    end.

  (* get_Fourier_transform, FrequencyAxis *)
  Definition ft_freq (v : variant) (a : atype) (dw itp : R) (y : list R) : list R :=
    let Y := map (fun z => natR (length y) * z * dw * itp) (fftshift (ifft (inner v y))) in
    match a with Complete => Y | UpperHalf => upper_part (length y / 2) Y end.
End Transforms.

(* ---------------------------------------------------------------------------------- *)
(*  executable instances for the correspondence check                                 *)
(* ---------------------------------------------------------------------------------- *)
Definition QF : Fld := mkFld Qc (Q2Qc 0) (Q2Qc 1) Qcplus Qcmult Qcminus Qcopp Qcdiv Qcinv Qcft.

(* axes as literals: (start, length, step, upper-half?, conjugate start) *)
Definition axlit := (Q * nat * Q * bool * Q)%type.
Definition ax_of (a : axlit) : axis QF :=
  let '(s, n, d, u, c) := a in @mkAxis QF (Q2Qc s) n (Q2Qc d) (if u then UpperHalf else Complete) (Q2Qc c).
(* rounding of the float code is relative to the magnitudes involved: steps are compared relative to themselves,
   starts and conjugate starts (differences of axis points) relative to the extents [sc] of the two axes *)
Definition qc_close (tol : Q) (sc : Q) (x y : Qc) : bool := Qle_bool (Qabs (this x - this y)) (tol * sc).
Definition ax_extent (a : axis QF) : Q :=
  Qabs (this (a_start a)) + Qabs (this (a_conj a)) + inject_Z (Z.of_nat (a_len a)) * Qabs (this (a_step a)).
Definition ax_close (tol : Q) (sc : Q) (a b : axis QF) : bool :=
  qc_close tol sc (a_start a) (a_start b) && Nat.eqb (a_len a) (a_len b)
  && qc_close tol (Qabs (this (a_step b))) (a_step a) (a_step b)
  && atype_eqb (a_type a) (a_type b) && qc_close tol sc (a_conj a) (a_conj b).
Definition oax_close (tol : Q) (src : axis QF) (a : option (axis QF)) (b : option axlit) : bool :=
  match a, b with
  | Some x, Some y => ax_close tol (1 + ax_extent src + ax_extent (ax_of y)) x (ax_of y)
  | None, None => true
  | _, _ => false
  end.
(* (2 pi as the float used by the code, time axis, its frequency axis as returned, the time axis returned from that) *)
Definition case_axis := (Q * axlit * option axlit * option axlit)%type.
Definition axis_agrees_tf (tol : Q) (c : case_axis) : bool :=
  let '(tp, t, w, t') := c in
  oax_close tol (ax_of t) (freq_axis_of QF (Q2Qc tp) (ax_of t)) w &&
  match w with Some wl => oax_close tol (ax_of wl) (time_axis_of QF (Q2Qc tp) (ax_of wl)) t' | None => true end.
(* the same starting from a frequency axis *)
Definition axis_agrees_ft (tol : Q) (c : case_axis) : bool :=
  let '(tp, w, t, w') := c in
  oax_close tol (ax_of w) (time_axis_of QF (Q2Qc tp) (ax_of w)) t &&
  match t with Some tl => oax_close tol (ax_of tl) (freq_axis_of QF (Q2Qc tp) (ax_of tl)) w' | None => true end.

(* values: Gaussian rationals; the oracle is replayed from the calls recorded on the real run *)
Definition glist := list (Q * Q).
Definition g_of (l : glist) : list GQ := map (fun p => q2gq (fst p) (snd p)) l.
Fixpoint lookup (tbl : list (list GQ * list GQ)) (x : list GQ) : list GQ :=
  match tbl with
  | [] => []
  | (k, v) :: rest => if all2 gq_eqb k x then v else lookup rest x
  end.
Definition tbl_of (t : list (glist * glist)) : list (list GQ * list GQ) := map (fun p => (g_of (fst p), g_of (snd p))) t.
Definition gl_close (tol : Q) (a b : list GQ) : bool := all2 (gq_close tol) a b.

(* which routine: 0 ft_time, 1 ift_freq, 2 ift_time, 3 ft_freq *)
Definition run_stage (v : variant) (fftT ifftT : list (list GQ * list GQ)) (which : nat) (u : bool)
           (step itp : Q) (y : list GQ) : list GQ :=
  let a := if u then UpperHalf else Complete in
  let s : GQ := q2gq step 0 in let i : GQ := q2gq itp 0 in
  match which with
  | 0%nat => ft_time (lookup ifftT) v a s y
  | 1%nat => ift_freq (lookup fftT) v a s i y
  | 2%nat => ift_time (lookup fftT) v a s y
  | _ => ft_freq (lookup ifftT) v a s i y
  end.
(* (routine, upper-half?, step, 1/(2 pi), input values, recorded fft calls, recorded ifft calls, output, tolerance) *)
Definition case_stage := (nat * bool * Q * Q * glist * list (glist * glist) * list (glist * glist) * glist * Q)%type.
Definition stage_agrees (v : variant) (c : case_stage) : bool :=
  let '(which, u, step, itp, y, fT, iT, out, tol) := c in
  gl_close tol (run_stage v (tbl_of fT) (tbl_of iT) which u step itp (g_of y)) (g_of out).

(* the whole model with its own transform (defining sums) for lengths whose roots of unity are Gaussian:
   zeta = 1, -1, i for L = 1, 2, 4 *)
Definition gq_zeta (L : nat) : GQ :=
  match L with 1%nat => q2gq 1 0 | 2%nat => q2gq (-1) 0 | _ => q2gq 0 1 end.
Definition run_full (v : variant) (L : nat) (which : nat) (u : bool) (step itp : Q) (y : list GQ) : list GQ :=
  let a := if u then UpperHalf else Complete in
  let s : GQ := q2gq step 0 in let i : GQ := q2gq itp 0 in
  let invL : GQ := q2gq (1 # Pos.of_nat L) 0 in
  let fftM := dft_list L (gq_zeta L) (-1) in
  let ifftM := fun x => map (rmul GQ invL) (dft_list L (gq_zeta L) 1 x) in
  match which with
  | 0%nat => ft_time ifftM v a s y
  | 1%nat => ift_freq fftM v a s i y
  | 2%nat => ift_time fftM v a s y
  | _ => ft_freq ifftM v a s i y
  end.
(* (transform length L, routine, upper-half?, step, 1/(2 pi), input, output, tolerance) *)
Definition case_full := (nat * nat * bool * Q * Q * glist * glist * Q)%type.
Definition full_agrees (v : variant) (c : case_full) : bool :=
  let '(L, which, u, step, itp, y, out, tol) := c in
  gl_close tol (run_full v L which u step itp (g_of y)) (g_of out).
