(* Model of the glue around the propagation kernels of Model/C02.v:
     hamiltonian.py   get_RWA_data  H - diag(Omega);  get_RWA_skeleton  Omega_i = convert(rwa_energies_i);
                      set_rwa  block means of the diagonal
     dmevolution.py / statevectorevolution.py   convert_from_RWA / convert_to_RWA: which stored states are converted, the flag,
                      the phase vector  Ut_k = exp(-sgn i Omega_k t),  diag(Ut) rho conj(diag(Ut))  /  Ut * psi
     rdmpropagator.py _INIT_RWA / _CLOSE_RWA, _BOOT_DEPH / _APPLY_DEPH (Lorentzian and Gaussian factors),
                      propagate: which loop nest runs for which options and method string, the per-call refinement
     svpropagator.py  propagate
   over a commutative ring with conjugation; exp is a function parameter [ex].  Executable definitions only. *)
From Coq Require Import ZArith List Bool Arith.
From QV Require Import Base.Alg Base.Sums Base.Mat Base.Tens Model.C01 Model.C02.
Import ListNotations.

Section Glue.
  Context {R : StarRing}.
  Open Scope sr_scope.
  Variable n : nat.

  Definition mdiag (v : @vec R) : @mat R := fun i j => if Nat.eqb i j then v i else 0.
  Definition mconj (A : @mat R) : @mat R := fun i j => cj R (A i j).

  (* ---- convert_from_RWA(ham, sgn) / convert_to_RWA(ham) as a machine over (flag is_in_rwa, one stored state) ---- *)
  Definition conv_applies (in_rwa : bool) (sgn : Z) : bool := (in_rwa && (sgn =? 1)%Z) || (sgn =? -1)%Z.
  Definition conv_flag (in_rwa : bool) (sgn : Z) : bool := if (sgn =? 1)%Z then false else in_rwa.
  (* the phases: Ut_k = ex(-sgn * i * Omega_k * t), sgn as a ring element *)
  Definition rwa_phase (ex : R -> R) (im sgn : R) (Om : @vec R) (t : R) : @vec R := fun k => ex (- sgn * im * Om k * t).
  Definition conv_from_dm (in_rwa : bool) (sgn : Z) (u : @vec R) (rho : @mat R) : bool * @mat R :=
    (conv_flag in_rwa sgn, if conv_applies in_rwa sgn then rwa_dm u rho else rho).
  Definition conv_to_dm (in_rwa : bool) (um : @vec R) (rho : @mat R) : bool * @mat R :=
    if in_rwa then (in_rwa, rho) else (true, snd (conv_from_dm in_rwa (-1) um rho)).
  Definition conv_from_sv (in_rwa : bool) (sgn : Z) (u psi : @vec R) : bool * @vec R :=
    (conv_flag in_rwa sgn, if conv_applies in_rwa sgn then rwa_sv n SvRepaired u psi else psi).
  Definition conv_to_sv (in_rwa : bool) (um psi : @vec R) : bool * @vec R :=
    if in_rwa then (in_rwa, psi) else (true, snd (conv_from_sv in_rwa (-1) um psi)).

  (* ---- _INIT_RWA / _CLOSE_RWA ---- *)
  Definition init_rwa (has_rwa : bool) (H : @mat R) (Om : @vec R) : @mat R := if has_rwa then rwa_ham H Om else H.
  Definition close_rwa (has_rwa flag : bool) : bool := if has_rwa then true else flag.

  (* ---- pure dephasing: _BOOT_DEPH (expo, t0) and _APPLY_DEPH (rho * expo * exp(-t0*tt)); half stands for 1/2.0 ---- *)
  Inductive deph_kind := Lorentzian | Gaussian.
  Definition deph_expo (ex : R -> R) (half : R) (k : deph_kind) (gam : @mat R) (dt : R) : @mat R :=
    fun i j => match k with Lorentzian => ex (- gam i j * dt) | Gaussian => ex (- gam i j * (dt * dt) * half) end.
  Definition deph_t0 (k : deph_kind) (gam : @mat R) (dt : R) : @mat R :=
    fun i j => match k with Lorentzian => 0 | Gaussian => gam i j * dt end.
  (* the matrix E of Model.C02.dephase for the refined step that starts at time tt *)
  Definition deph_mult (ex : R -> R) (half : R) (k : deph_kind) (gam : @mat R) (dt tt : R) : @mat R :=
    fun i j => deph_expo ex half k gam dt i j * ex (- deph_t0 k gam dt i j * tt).
  (* accumulated multiplier over the refined steps starting at the times t 0, t 1, ..., t (k-1) *)
  Fixpoint deph_acc (ex : R -> R) (half : R) (kd : deph_kind) (gam : @mat R) (dt : R) (t : nat -> R) (k : nat) (i j : nat) : R :=
    match k with O => 1 | S k' => deph_acc ex half kd gam dt t k' i j * deph_mult ex half kd gam dt (t k') i j end.

  (* ---- Hamiltonian.set_rwa: rwa_energies[ii] = (sum of the diagonal over the block of ii) / (size of the block);
          blocks start at idx 0 < idx 1 < ... and the last one ends at dim; inv k stands for 1/float(k) ---- *)
  Definition block_upper (idx : nat -> nat) (nblocks dim b : nat) : nat := if Nat.ltb b (nblocks - 1) then idx (S b) else dim.
  Definition block_mean (inv : nat -> R) (diag : @vec R) (lo hi : nat) : R := sum (hi - lo) (fun k => diag (lo + k)%nat) * inv (hi - lo)%nat.
  Fixpoint rwa_energies_from (inv : nat -> R) (diag : @vec R) (idx : nat -> nat) (nblocks dim : nat) (k b : nat) (acc : @vec R) : @vec R :=
    match k with
    | O => acc
    | S k' => let lo := idx b in let hi := block_upper idx nblocks dim b in
              let m := block_mean inv diag lo hi in
              rwa_energies_from inv diag idx nblocks dim k' (S b) (fun ii => if Nat.leb lo ii && Nat.ltb ii hi then m else acc ii)
    end.
  Definition rwa_energies (inv : nat -> R) (diag : @vec R) (idx : nat -> nat) (nblocks dim : nat) : @vec R :=
    rwa_energies_from inv diag idx nblocks dim nblocks 0 (fun _ => 0).
End Glue.

(* ---- ReducedDensityMatrixPropagator.propagate: which loop nest, which order ---- *)
Inductive meth := MShort | MShort2 | MShort4 | MShort6 | MOther.
Definition meth_eqb (a b : meth) : bool :=
  match a, b with MShort, MShort | MShort2, MShort2 | MShort4, MShort4 | MShort6, MShort6 | MOther, MOther => true | _, _ => false end.
Inductive target := THam | TRelax | TTDRelax | THamField | THamEField | TRelaxField | TRelaxEField | TTDField | TTDEField.
Definition order_of (m : meth) : option Z :=
  match m with MShort => Some 4%Z | MShort2 => Some 2%Z | MShort4 => Some 4%Z | MShort6 => Some 6%Z | MOther => None end.
Definition target_of (has_relax is_td efield trdip efield_obj : bool) : target :=
  if has_relax then
    (if is_td then (if efield && trdip then TTDField else if efield_obj && trdip then TTDEField else TTDRelax)
     else (if efield && trdip then TRelaxField else if efield_obj && trdip then TRelaxEField else TRelax))
  else (if efield && trdip then THamField else if efield_obj && trdip then THamEField else THam).
Definition dispatch (has_relax is_td efield trdip efield_obj : bool) (m : meth) : option (target * Z) :=
  option_map (fun L => (target_of has_relax is_td efield trdip efield_obj, L)) (order_of m).
(* tensor form or operator form inside the relaxation nests *)
Inductive form := FTensor | FOperators.
Definition form_of (as_operators : bool) : form := if as_operators then FOperators else FTensor.

(* per-call refinement propagate(..., Nref=k): (Nref, dt) seen by the inner call and left behind; inv k stands for 1/k *)
Section PerCall.
  Context {R : StarRing}.
  Definition refine (Odt : R) (inv : Z -> R) (k : Z) : Z * R := (k, rmul R Odt (inv k)).
  Definition percall (st : Z * R) (Odt : R) (inv : Z -> R) (k : Z) : (Z * R) * (Z * R) :=
    if (1 <? k)%Z then (refine Odt inv k, st) else (st, st).
End PerCall.
