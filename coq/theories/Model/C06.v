(* Model of the population-transfer rate matrices and of the bath functions they are built from:
   quantarhei/implementations/python/redfieldrates.py   (ssRedfieldRateMatrix, incl. the clamp of small negatives)
   quantarhei/qm/liouvillespace/rates/redfieldrates.py   (RedfieldRateMatrix._set_rates: the table cc[k,i,j])
   quantarhei/qm/liouvillespace/rates/foersterrates.py   (_reference_implementation)
   quantarhei/qm/liouvillespace/redfieldtensor.py        (_loopit: the population-transfer element R[a,a,b,b])
   quantarhei/qm/corfunctions/spectraldensities.py       (analytic spectral densities, get_FTCorrelationFunction)
   Executable definitions only.

   Scalars: any commutative ring with involution (Base/Alg.v).  The comparisons the code makes on floats
   ("< 0", "|x| < rtol", "|w| > cut-off") are boolean tests handed to the model as functions; the theorems hold for
   every such test (with the stated hypotheses) and the correspondence check instantiates them with the real order
   of Z / Q.  Oracles: cw_k (spline through the FFT of the correlation function), boltz (numpy.exp(-w/kT)), the
   Foerster integral, numpy.tanh. *)
From Coq Require Import ZArith List Bool QArith Qabs Qcanon.
From QV Require Import Base.Alg Base.Sums Base.Mat Base.Util.
Import ListNotations.

Section Rates.
  Context {R : StarRing}.
  Open Scope sr_scope.
  Variable ltz : R -> bool.          (* x < 0.0 *)
  Variable small : R -> bool.        (* numpy.abs(x) < rtol *)

  (* ---- ssRedfieldRateMatrix(Na, Nk, KI, cc, rtol, werror, RR) ---- *)
  (* first loop: RR[i,j] += cc[k,i,j]*KK[i,j]*KK[j,i] for i != j, summed over the components k *)
  Definition raw (Nk : nat) (KI cc : nat -> @mat R) (RR0 : @mat R) (i j : nat) : R :=
    RR0 i j + sum Nk (fun k => cc k i j * KI k i j * KI k j i).
  (* second loop: a negative off-diagonal element is set to zero if it is small, kept otherwise *)
  Definition clamp (x : R) : R := if ltz x then (if small x then 0 else x) else x.
  Definition offd (Nk : nat) (KI cc : nat -> @mat R) (RR0 : @mat R) (i j : nat) : R :=
    if Nat.eqb i j then 0 else clamp (raw Nk KI cc RR0 i j).
  (* ... and RR[j,j] -= RR[i,j] for every i != j *)
  Definition ss_rate (Na Nk : nat) (KI cc : nat -> @mat R) (RR0 : @mat R) : @mat R :=
    fun i j => if Nat.eqb i j then RR0 j j - sum Na (fun i' => offd Nk KI cc RR0 i' j)
               else offd Nk KI cc RR0 i j.
  (* werror[0] = -1 iff some off-diagonal element was negative; werror[1] = -1 iff one of them was not small *)
  Definition any2 (Na : nat) (f : nat -> nat -> bool) : bool :=
    existsb (fun i => existsb (fun j => negb (Nat.eqb i j) && f i j) (seq 0 Na)) (seq 0 Na).
  Definition werror0 (Na Nk : nat) (KI cc : nat -> @mat R) (RR0 : @mat R) : bool :=
    any2 Na (fun i j => ltz (raw Nk KI cc RR0 i j)).
  Definition werror1 (Na Nk : nat) (KI cc : nat -> @mat R) (RR0 : @mat R) : bool :=
    any2 Na (fun i j => ltz (raw Nk KI cc RR0 i j) && negb (small (raw Nk KI cc RR0 i j))).

  (* ---- RedfieldRateMatrix._set_rates: the table of bath values ---- *)
  Variable gt_cut : R -> bool.       (* numpy.abs(w) > freq_cutoff *)
  Variable cw : nat -> R -> R.       (* Re cw_k.at(w, approx="spline") *)
  Variable boltz : R -> R.           (* numpy.exp(-w/(kB*T)) *)
  Definition Om (hD : nat -> R) (a b : nat) : R := hD a - hD b.
  Definition cc_table (hD : nat -> R) (k i j : nat) : R :=
    if Nat.eqb i j then 0
    else if gt_cut (Om hD j i) then 0
    else if ltz (Om hD j i) then cw k (Om hD i j) * boltz (Om hD i j)
    else cw k (Om hD j i).

  (* interaction operators in the eigenbasis: KI_k = S1 . K_k . S *)
  Definition proj (p : nat) : @mat R := fun i j => delta i p * delta j p.
  Definition KI_of (Na : nat) (S1 S : @mat R) (K : nat -> @mat R) (k : nat) : @mat R :=
    mmul Na S1 (mmul Na (K k) S).

  Definition redfield_rates (Na Nk : nat) (S1 S : @mat R) (K : nat -> @mat R) (hD : nat -> R) : @mat R :=
    ss_rate Na Nk (fun k => tab2 Na Na (KI_of Na S1 S K k)) (fun k => tab2 Na Na (cc_table hD k)) (fun _ _ => 0).

  (* ---- Foerster: KK[a,b] = HH[a,b]**2 * F(a,b) off the diagonal, KK[a,a] = -sum(KK[:,a]) ---- *)
  Definition foerster_offd (HH F : @mat R) (a b : nat) : R :=
    if Nat.eqb a b then 0 else HH a b * HH a b * F a b.
  Definition foerster_rates (Na : nat) (HH F : @mat R) : @mat R :=
    fun a b => if Nat.eqb a b then 0 - sum Na (fun i => foerster_offd HH F i b) else foerster_offd HH F a b.

  (* ---- Redfield tensor, _loopit: the element R[a,a,b,b], a <> b, collects  K_ab Ld_ba + L_ab Kd_ba  over the
          components; Kd = K^T, Ld = L^dagger ---- *)
  Definition tensor_aabb (Nk : nat) (K L : nat -> @mat R) (a b : nat) : R :=
    sum Nk (fun m => K m a b * cj R (L m a b) + L m a b * K m a b).
End Rates.

(* ------------------------------------------------------------------------------------------ *)
(*  spectral densities and the Fourier-transformed correlation function (rationals)           *)
(* ------------------------------------------------------------------------------------------ *)
Local Open Scope Q_scope.
(* _make_overdamped_brownian, _make_underdamped_brownian, _make_underdamped *)
Definition sd_overdamped (lamb ctime w : Q) : Q := (2 * lamb / ctime) * w / (w * w + (1 / ctime) * (1 / ctime)).
Definition sd_underdamped_brownian (lamb gamma w0 w : Q) : Q :=
  (2 * lamb * gamma) * (w0 * w0) * (w / ((w * w - w0 * w0) * (w * w - w0 * w0) + (w * w) * (gamma * gamma))).
Definition sd_underdamped (lamb gamma w0 w : Q) : Q :=
  2 * (lamb * w * gamma * (w0 * w0)) / ((w * w - w0 * w0) * (w * w - w0 * w0) + (gamma * w) * (gamma * w)).

(* get_FTCorrelationFunction away from w = 0: (1 + 1/tanh(w/2kT)) * J(w); [th] = numpy.tanh(w/2kT) *)
Definition ftcf_value (th J : Q) : Q := (1 + 1 / th) * J.
(* at the grid point w = 0 (L'Hospital): 2kT (J[+1] - J[-1]) / (2 step) *)
Definition ftcf_zero (twokbt Jp Jm step : Q) : Q := twokbt * (Jp - Jm) / (2 * step).

(* ------------------------------------------------------------------------------------------ *)
(*  executable instances                                                                      *)
(* ------------------------------------------------------------------------------------------ *)
Definition list_of_mat {R : StarRing} (n : nat) (A : @mat R) : list (list R) :=
  map (fun i => map (A i) (seq 0 n)) (seq 0 n).

(* integers: ssRedfieldRateMatrix on integer KI, cc (exact in float64); rtol given as a rational p/q *)
Definition z_ltz (x : ZR) : bool := (x <? 0)%Z.
Definition z_small (p q : Z) (x : ZR) : bool := (Z.abs x * q <? p)%Z.
Definition case_ss := (nat * nat * list (list (list Z)) * list (list (list Z)) * list (list Z) * (Z * Z) *
                       list (list Z) * bool * bool)%type.
Definition ss_agrees (c : case_ss) : bool :=
  let '(Na, Nk, KI, cc, RR0, (p, q), out, w0, w1) := c in
  let KIf := fun k => mat_of (R:=ZR) (nth k KI []) in
  let ccf := fun k => mat_of (R:=ZR) (nth k cc []) in
  let R0 := mat_of (R:=ZR) RR0 in
  all2 (all2 Z.eqb) (list_of_mat Na (ss_rate z_ltz (z_small p q) Na Nk KIf ccf R0)) out
  && Bool.eqb (werror0 z_ltz Na Nk KIf ccf R0) w0 && Bool.eqb (werror1 z_ltz (z_small p q) Na Nk KIf ccf R0) w1.

(* rationals: _set_rates end to end; oracle tables keyed by the exact frequency *)
Definition q2c (q : Q) : QR := Q2Qc q.
Definition c2q (x : QR) : Q := this x.
Definition q_ltz (x : QR) : bool := negb (Qle_bool 0 (c2q x)).
Definition q_small (rtol : Q) (x : QR) : bool := negb (Qle_bool rtol (Qabs (c2q x))).
Definition q_gt (cut : Q) (x : QR) : bool := negb (Qle_bool (Qabs (c2q x)) cut).
Definition tab1 (tab : list (Q * Q)) (x : QR) : QR :=
  match find (fun p => Qeq_bool (fst p) (c2q x)) tab with Some p => q2c (snd p) | None => q2c (- (1000003)) end.
Definition qmat (l : list (list Q)) : @mat QR := mat_of (R:=QR) (map (map q2c) l).

(* (Na, Nk, S1, S, K_k (site basis), hD, rtol, cut-off, cw tables per k, boltz table, output) *)
Definition case_rf := (nat * nat * list (list Q) * list (list Q) * list (list (list Q)) * list Q * Q * Q *
                       list (list (Q * Q)) * list (Q * Q) * list (list Q))%type.
Definition rf_model (c : case_rf) : @mat QR :=
  let '(Na, Nk, T1, T, K, hD, rtol, cut, cwt, bt, _) := c in
  redfield_rates q_ltz (q_small rtol) (q_gt cut) (fun k => tab1 (nth k cwt [])) (tab1 bt)
                 Na Nk (qmat T1) (qmat T) (fun k => qmat (nth k K [])) (fun a => q2c (nth a hD 0)).
Definition qclose_rel (tol scale x y : Q) : bool := Qle_bool (Qabs (x - y)) (tol * scale).
Definition rf_agrees (tol : Q) (c : case_rf) : bool :=
  let '(Na, _, _, _, _, _, _, _, _, _, out) := c in
  let M := list_of_mat Na (rf_model c) in
  let scale := fold_left (fun m row => fold_left (fun m' x => (if Qle_bool m' (Qabs x) then Qabs x else m')) row m) out 0 in
  all2 (all2 (fun x y => qclose_rel tol scale (c2q x) y)) M out.

(* Foerster on integers: (Na, HH, F, out) *)
Definition case_fo := (nat * list (list Z) * list (list Z) * list (list Z))%type.
Definition fo_agrees (c : case_fo) : bool :=
  let '(Na, HH, F, out) := c in
  all2 (all2 Z.eqb) (list_of_mat Na (foerster_rates (R:=ZR) Na (mat_of (R:=ZR) HH) (mat_of (R:=ZR) F))) out.


(* ------------------------------------------------------------------------------------------ *)
(*  Foerster: what the integral is called with; get_FTCorrelationFunction as a whole           *)
(* ------------------------------------------------------------------------------------------ *)
(* _reference_implementation calls  _fintegral(tt, gt[a,:], gt[b,:], ed = HH[b,b], ea = HH[a,a], ll[b]):  the column index b is the
   donor (its energy and its reorganisation energy enter), the row index a the acceptor; [fint] is the oracle integral *)
Definition foerster_F {R : StarRing} {G : Type} (fint : G -> G -> R -> R -> R -> R) (gt : nat -> G) (HH : @mat R) (ll : nat -> R)
  (a b : nat) : R := fint (gt a) (gt b) (HH b b) (HH a a) (ll b).
(* _fintegral: the integrand is exp(-gtd - gta + 1j*phase*tt) with phase = (ed - ea) - 2 ld, and the result 2 Re of the last point of
   its antiderivative *)
Definition foerster_phase {R : StarRing} (two ed ea ld : R) : R := rsub R (rsub R ed ea) (rmul R two ld).

Local Open Scope Q_scope.
(* temperature selection of get_FTCorrelationFunction: [arg] is the temperature= argument, every component of the spectral density
   stores a temperature or none; the argument overwrites the stored ones; all components must then agree *)
Inductive ft_temp := FtOk (t : Q) | FtErr.
Definition ft_prm_T (arg stored : option Q) : option Q := match arg with Some t => Some t | None => stored end.
Fixpoint ft_temp_from (arg : option Q) (temp : Q) (ps : list (option Q)) : ft_temp :=
  match ps with
  | [] => FtOk temp
  | p :: ps' => match ft_prm_T arg p with
                | None => FtErr
                | Some t => if Qeq_bool temp t then ft_temp_from arg temp ps' else FtErr
                end
  end.
Definition ft_temperature (arg : option Q) (ps : list (option Q)) : ft_temp :=
  match ps with
  | [] => FtErr
  | p :: ps' => match ft_prm_T arg p with None => FtErr | Some t => ft_temp_from arg t ps' end
  end.

(* twokbt = 2.0*kB_int*temp; a grid point away from zero: (1 + 1/tanh(w/twokbt)) J(w); [th] = numpy.tanh *)
Definition ftcf_twokbt (kB T : Q) : Q := 2 * kB * T.
Definition ftcf_point (th : Q -> Q) (twokbt w J : Q) : Q := ftcf_value (th (w / twokbt)) J.
(* the whole grid: if zero is further than atol from every grid point ([direct]) the formula is used everywhere, otherwise the
   point i0 = axis.locate(0.0) gets the L'Hospital value from its two neighbours *)
Definition ftcf_grid (th : Q -> Q) (twokbt step : Q) (i0 : nat) (direct : bool) (omega data : nat -> Q) (i : nat) : Q :=
  if direct then ftcf_point th twokbt (omega i) (data i)
  else if Nat.eqb i i0 then ftcf_zero twokbt (data (S i0)) (data (pred i0)) step
  else ftcf_point th twokbt (omega i) (data i).


(* ---- executable instances for the additions ---- *)
(* Foerster with the integral replaced by an integer function that tells its five arguments apart: (Na, HH, ll, out); the
   line-shape function of site i is represented by i *)
Definition fint_probe (gd ga : Z) (ed ea ld : ZR) : ZR := (gd + 10 * ga + 100 * ed + 1000 * ea + 10000 * ld)%Z.
Definition case_fo2 := (nat * list (list Z) * list Z * list (list Z))%type.
Definition fo2_agrees (c : case_fo2) : bool :=
  let '(Na, HH, ll, out) := c in
  let H := mat_of (R:=ZR) HH in
  all2 (all2 Z.eqb) (list_of_mat Na (foerster_rates (R:=ZR) Na H (foerster_F (R:=ZR) fint_probe Z.of_nat H (fun i => nth i ll 0%Z)))) out.

(* temperature selection: (temperature argument, stored temperatures, temperature found in the result or None for an exception) *)
Definition case_ftT := (option Q * list (option Q) * option Q)%type.
Definition ftT_agrees (c : case_ftT) : bool :=
  let '(arg, ps, res) := c in
  match ft_temperature arg ps, res with
  | FtOk t, Some t' => Qeq_bool t t'
  | FtErr, None => true
  | _, _ => false
  end.

(* values on the grid: (twokbt, step, i0, direct, [(i, omega_i, data_i, tanh(omega_i/twokbt) as computed by numpy, vals_i)]) *)
Definition case_ftg := (Q * Q * nat * bool * list (nat * Q * Q * Q * Q))%type.
Definition ftg_data (l : list (nat * Q * Q * Q * Q)) (i : nat) : Q :=
  match find (fun p => Nat.eqb (fst (fst (fst (fst p)))) i) l with Some p => snd (fst (fst p)) | None => 0 end.
Definition ftg_agrees (tol : Q) (c : case_ftg) : bool :=
  let '(twokbt, step, i0, direct, l) := c in
  forallb (fun p => let '(i, w, J, t, v) := p in
                    let m := ftcf_grid (fun _ => t) twokbt step i0 direct (fun _ => w) (ftg_data l) i in
                    (* float rounding of 1 + 1/tanh where tanh is close to -1 (cancellation): a few ulp of |J| (1 + 1/|tanh|) *)
                    Qle_bool (Qabs (m - v)) (tol * Qabs v + (4 # 1000000000000000) * Qabs J * (1 + Qabs (1 / t)))) l.
