(* Model of the assembly of relaxation tensors in quantarhei/qm/liouvillespace:
     redfieldtensor.py   _loopit / _convert_operators_2_tensor / apply (operator form)
     tdredfieldtensor.py _convert_operators_2_tensor (per time index; K written where K^T stands in _loopit)
     lindbladform.py     LindbladForm._implementation
     relaxationtensor.py updateStructure, secularize (and secular.py _secularize_data)
     foerstertensor.py / tdfoerstertensor.py  initialize (rates -> tensor), add_dephasing
     redfieldfoerster.py the final "add the rates to the Redfield" loop
   over any commutative ring with conjugation.  Executable definitions only (no proofs).
   A family of operators K_m is a function nat -> mat; sums over m run below Nb. *)
From Coq Require Import ZArith List Bool Arith QArith Qcanon.
From QV Require Import Base.Alg Base.Sums Base.Mat Base.Tens Base.Util.
Import ListNotations.

Inductive deph_variant := DephPinned | DephRepaired.

Section Model.
  Context {R : StarRing}.
  Open Scope sr_scope.

  (* one bath component of _loopit(Km, Kd, Lm, Ld, Na, RR, m): the caller passes Kd and Ld *)
  Definition loopit_m (n : nat) (K Kd L Ld : @mat R) : @tens R :=
    fun a b c d =>
      K a c * Ld d b + L a c * Kd d b
      - (if Nat.eqb b d then mmul n Kd L a c else 0)
      - (if Nat.eqb a c then mmul n Ld K d b else 0).

  (* RedfieldRelaxationTensor._convert_operators_2_tensor(Km, Lm, Ld): Kd = transpose(Km[m]) *)
  Definition convert_ops (n Nb : nat) (Km Lm Ld : nat -> @mat R) : @tens R :=
    fun a b c d => sum Nb (fun m => loopit_m n (Km m) (mT (Km m)) (Lm m) (Ld m) a b c d).

  (* _implementation: Ld[m] = conj(transpose(Lm[m])) *)
  Definition redfield_tensor (n Nb : nat) (Km Lm : nat -> @mat R) : @tens R :=
    convert_ops n Nb Km Lm (fun m => mdag (Lm m)).

  (* TDRedfieldRelaxationTensor._convert_operators_2_tensor at one time index: Km[m,d,b] and Km.Lm
     are written where _loopit has Kd[d,b] and Kd.Lm *)
  Definition td_loopit_m (n : nat) (K L Ld : @mat R) : @tens R :=
    fun a b c d =>
      K a c * Ld d b + L a c * K d b
      - (if Nat.eqb b d then mmul n K L a c else 0)
      - (if Nat.eqb a c then mmul n Ld K d b else 0).
  Definition td_convert_ops (n Nb : nat) (Km Lm Ld : nat -> @mat R) : @tens R :=
    fun a b c d => sum Nb (fun m => td_loopit_m n (Km m) (Lm m) (Ld m) a b c d).
  Definition td_redfield_tensor (n Nb : nat) (Km Lm : nat -> @mat R) : @tens R :=
    td_convert_ops n Nb Km Lm (fun m => mdag (Lm m)).

  (* LindbladForm._implementation: llm = rates[i]*KK[i]/2, lld = transpose(llm); hg m stands for rate_m/2 *)
  Definition lindblad_L (hg : nat -> R) (Km : nat -> @mat R) : nat -> @mat R := fun m => mscale (hg m) (Km m).
  Definition lindblad_tensor (n Nb : nat) (hg : nat -> R) (Km : nat -> @mat R) : @tens R :=
    convert_ops n Nb Km (lindblad_L hg Km) (fun m => mT (lindblad_L hg Km m)).

  (* operator form: RedfieldRelaxationTensor.apply / rdmpropagator _OTI right-hand side *)
  Definition apply_ops (n Nb : nat) (Km Lm Ld : nat -> @mat R) (rho : @mat R) : @mat R :=
    fun a b => sum Nb (fun m =>
      mmul n (Km m) (mmul n rho (Ld m)) a b + mmul n (Lm m) (mmul n rho (mT (Km m))) a b
      - mmul n (mmul n (mT (Km m)) (Lm m)) rho a b - mmul n rho (mmul n (Ld m) (Km m)) a b).

  (* Foerster: data[aa,aa,bb,bb] = rates[aa,bb] for aa != bb on a zero tensor *)
  Definition rates_to_tensor (K : @mat R) : @tens R :=
    fun a b c d => if Nat.eqb a b && Nat.eqb c d && negb (Nat.eqb a c) then K a c else 0.

  (* RelaxationTensor.updateStructure; [half] is the ring element 1/2 *)
  Definition upd_depop (n : nat) (T : @tens R) : @tens R :=
    fun a b c d =>
      if Nat.eqb a b && Nat.eqb c d && Nat.eqb a c
      then T a a a a - (sum n (fun i => T i i a a) - T a a a a)
      else T a b c d.
  Definition upd_deph (half : R) (T : @tens R) : @tens R :=
    fun a b c d =>
      if Nat.eqb a c && Nat.eqb b d && negb (Nat.eqb a b)
      then half * (T a a a a + T b b b b)
      else T a b c d.
  Definition update_structure (n : nat) (half : R) (T : @tens R) : @tens R := upd_deph half (upd_depop n T).

  (* add_dephasing: data[aa,bb,aa,bb] -= ht[aa] + ht[bb]   (pinned)   /   ht[aa] + conj(ht[bb])  (repaired) *)
  Definition add_dephasing (v : deph_variant) (h : nat -> R) (T : @tens R) : @tens R :=
    fun a b c d =>
      if Nat.eqb a c && Nat.eqb b d && negb (Nat.eqb a b)
      then T a b c d - (h a + match v with DephPinned => h b | DephRepaired => cj R (h b) end)
      else T a b c d.

  Definition foerster_tensor (n : nat) (half : R) (K : @mat R) : @tens R := update_structure n half (rates_to_tensor K).

  (* RedfieldFoerster: data[a,a,b,b] += KF[a,b] for all a; data[b,b,b,b] -= sum_a KF[a,b] *)
  Definition rf_add (n : nat) (KF : @mat R) (T : @tens R) : @tens R :=
    fun a b c d =>
      T a b c d + (if Nat.eqb a b && Nat.eqb c d then KF a c else 0)
      - (if Nat.eqb a b && Nat.eqb c d && Nat.eqb a c then colsum n KF c else 0).

  (* secularize (legacy loop and Secular._secularize_data are the same loop) *)
  Definition secular_keep (a b c d : nat) : bool := (Nat.eqb a b && Nat.eqb c d) || (Nat.eqb a c && Nat.eqb b d).
  Definition secularize (T : @tens R) : @tens R := fun a b c d => if secular_keep a b c d then T a b c d else 0.

  Definition tadd (T U : @tens R) : @tens R := fun a b c d => T a b c d + U a b c d.
  Definition tscale (x : R) (T : @tens R) : @tens R := fun a b c d => x * T a b c d.
End Model.

(* ---------------- executable instances for the correspondence check ---------------- *)
Definition ops_of {R : StarRing} (l : list (list (list R))) : nat -> @mat R := fun m => mat_of (nth m l []).

Definition tens_all (n : nat) (f : nat -> nat -> nat -> nat -> bool) : bool :=
  forallb (fun a => forallb (fun b => forallb (fun c => forallb (fun d => f a b c d) (seq 0 n)) (seq 0 n)) (seq 0 n)) (seq 0 n).
Definition gz_tens_eqb (n : nat) (T U : @tens GZ) : bool := tens_all n (fun a b c d => gz_eqb (T a b c d) (U a b c d)).
Definition gq_tens_eqb (n : nat) (T U : @tens GQ) : bool := tens_all n (fun a b c d => gq_eqb (T a b c d) (U a b c d)).
Definition gq_tens_close (tol : Q) (n : nat) (T U : @tens GQ) : bool := tens_all n (fun a b c d => gq_close tol (T a b c d) (U a b c d)).
Definition gz_mat_eqb (n : nat) (A B : @mat GZ) : bool :=
  forallb (fun a => forallb (fun b => gz_eqb (A a b) (B a b)) (seq 0 n)) (seq 0 n).

Definition gqc (p : Q * Q) : GQ := q2gq (fst p) (snd p).
Definition gq_ops (l : list (list (list (Q * Q)))) : nat -> @mat GQ := ops_of (map (map (map gqc)) l).
Definition gq_tens (l : list (list (list (list (Q * Q))))) : @tens GQ := tens_of (map (map (map (map gqc))) l).
Definition gq_mat (l : list (list (Q * Q))) : @mat GQ := mat_of (map (map gqc) l).

(* the identities of the property, decided on the executable instances (what the model says about a case) *)
Definition gz_trace_ok (n : nat) (T : @tens GZ) : bool :=
  forallb (fun c => forallb (fun d => gz_eqb (sum n (fun a => T a a c d)) (r0 GZ)) (seq 0 n)) (seq 0 n).
Definition gz_herm_ok (n : nat) (T : @tens GZ) : bool := tens_all n (fun a b c d => gz_eqb (cj GZ (T a b c d)) (T b a d c)).
Definition gq_trace_ok (n : nat) (T : @tens GQ) : bool :=
  forallb (fun c => forallb (fun d => gq_eqb (sum n (fun a => T a a c d)) (r0 GQ)) (seq 0 n)) (seq 0 n).
Definition gq_herm_ok (n : nat) (T : @tens GQ) : bool := tens_all n (fun a b c d => gq_eqb (cj GQ (T a b c d)) (T b a d c)).

(* kinds of exact cases (Gaussian integers): (kind, n, Nb, Km, Lm, Ld, extra matrix, extra tensor, result) *)
Inductive ckind := KLoopit | KConvert | KTdConvert | KLindblad | KSecular | KTransform | KRfAdd | KApplyOps | KSecularIn.

Definition gz_ops (l : list (list (list (Z * Z)))) : nat -> @mat GZ := @ops_of GZ l.
Definition gz_tens (l : list (list (list (list (Z * Z))))) : @tens GZ := @tens_of GZ l.
Definition gz_mat (l : list (list (Z * Z))) : @mat GZ := @mat_of GZ l.

Record case01 := mkCase01 {
  c_kind : ckind; c_n : nat; c_nb : nat;
  c_K : list (list (list (Z * Z))); c_L : list (list (list (Z * Z))); c_Ld : list (list (list (Z * Z)));
  c_M : list (list (Z * Z));                      (* extra matrix: S, KF, rho *)
  c_T : list (list (list (list (Z * Z))));        (* input tensor *)
  c_out : list (list (list (list (Z * Z))));      (* implementation's tensor result *)
  c_outm : list (list (Z * Z))                    (* implementation's matrix result (apply) *)
}.

Definition hg_of (l : list (list (Z * Z))) : nat -> GZ := fun m => nth 0 (nth m l []) (r0 GZ).

Definition model01 (c : case01) : @tens GZ :=
  let n := c_n c in let Nb := c_nb c in
  match c_kind c with
  | KLoopit => (* _loopit with caller-supplied Kd (= c_M as 1-element family is not needed: Kd in c_Ld slot 1) *)
      loopit_m n (gz_ops (c_K c) 0%nat) (gz_mat (c_M c)) (gz_ops (c_L c) 0%nat) (gz_ops (c_Ld c) 0%nat)
  | KConvert => convert_ops n Nb (gz_ops (c_K c)) (gz_ops (c_L c)) (gz_ops (c_Ld c))
  | KTdConvert => td_convert_ops n Nb (gz_ops (c_K c)) (gz_ops (c_L c)) (gz_ops (c_Ld c))
  | KLindblad => lindblad_tensor n Nb (hg_of (c_M c)) (gz_ops (c_K c))
  | KSecular => secularize (gz_tens (c_T c))
  | KTransform => ttrans n (mT (gz_mat (c_M c))) (gz_mat (c_M c)) (gz_tens (c_T c))
  | KRfAdd => rf_add n (gz_mat (c_M c)) (gz_tens (c_T c))
  (* secularize() called as the first access inside a freshly entered basis context with diagonaliser S: the tensor is
     presented in that basis first *)
  | KSecularIn => secularize (ttrans n (mT (gz_mat (c_M c))) (gz_mat (c_M c)) (gz_tens (c_T c)))
  | KApplyOps => fun _ _ _ _ => r0 GZ
  end.

Definition agrees01 (c : case01) : bool :=
  match c_kind c with
  | KApplyOps =>
      gz_mat_eqb (c_n c) (apply_ops (c_n c) (c_nb c) (gz_ops (c_K c)) (gz_ops (c_L c)) (gz_ops (c_Ld c)) (gz_mat (c_M c)))
                 (gz_mat (c_outm c))
  | _ => gz_tens_eqb (c_n c) (model01 c) (gz_tens (c_out c))
  end.

(* rational cases: update_structure / Foerster tensor / add_dephasing (division by two; complex h) and the
   end-to-end comparison of a tensor with the model fed the run's own operators *)
Inductive qkind := QUpdate | QFoerster | QDephPinned | QDephRepaired | QRedfield | QTdRedfield | QRfAdd | QSecularIn.
Record case01q := mkCase01q {
  q_kind : qkind; q_n : nat; q_nb : nat;
  q_K : list (list (list (Q * Q))); q_L : list (list (list (Q * Q)));
  q_M : list (list (Q * Q));                      (* rates matrix / h as a 1-row matrix *)
  q_T : list (list (list (list (Q * Q))));
  q_out : list (list (list (list (Q * Q))));
  q_tol : Q
}.
Definition half_gq : GQ := q2gq (1 # 2) 0.
Definition model01q (c : case01q) : @tens GQ :=
  let n := q_n c in
  match q_kind c with
  | QUpdate => update_structure n half_gq (gq_tens (q_T c))
  | QFoerster => foerster_tensor n half_gq (gq_mat (q_M c))
  | QDephPinned => add_dephasing DephPinned (fun a => gq_mat (q_M c) 0%nat a) (gq_tens (q_T c))
  | QDephRepaired => add_dephasing DephRepaired (fun a => gq_mat (q_M c) 0%nat a) (gq_tens (q_T c))
  | QRedfield => redfield_tensor n (q_nb c) (gq_ops (q_K c)) (gq_ops (q_L c))
  | QTdRedfield => td_redfield_tensor n (q_nb c) (gq_ops (q_K c)) (gq_ops (q_L c))
  | QRfAdd => rf_add n (gq_mat (q_M c)) (gq_tens (q_T c))
  (* secularize() as the first access inside a context whose diagonaliser is the (orthogonal) matrix q_M *)
  | QSecularIn => secularize (ttrans n (mT (gq_mat (q_M c))) (gq_mat (q_M c)) (gq_tens (q_T c)))
  end.
Definition agrees01q (c : case01q) : bool := gq_tens_close (q_tol c) (q_n c) (model01q c) (gq_tens (q_out c)).
