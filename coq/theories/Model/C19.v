(* Model of the storage of quantarhei/spectroscopy/twod2.py: the d__data getter/setter
   (twodspectrum_dictionary), TwoDSpectrumBase._add_data, set_data_flag, set_resolution,
   _convert_resolution, _convert_res_elementary, get_all_data.  Executable definitions only.
   Data arrays are elements of an additive group (carrier of a StarRing); the harness uses integers. *)
From Coq Require Import ZArith List Bool.
From QV Require Import Base.Alg.
Import ListNotations.

Inductive ptype := R1g | R2g | R3g | R4g | R1fs | R2fs | R3fs | R4fs.
Inductive process := GSB | SE | ESA | DCp.
Inductive signal := REPH | NONR | DCs.
Inductive dtype := DP (p : ptype) | DQ (q : process) | DS (s : signal) | DTot | DUnknown.
(* storage resolutions "off" < "signals" < "processes" < "types" < "pathways" *)
Inductive level := Off | Signals | Processes | Types | Pathways.

Definition all_ptypes := [R1g; R2g; R3g; R4g; R1fs; R2fs; R3fs; R4fs].
Definition all_processes := [GSB; SE; ESA; DCp].
Definition all_signals := [REPH; NONR; DCs].
Definition types_of_process (q : process) : list ptype :=
  match q with GSB => [R1g; R2g] | SE => [R3g; R4g] | ESA => [R1fs; R2fs] | DCp => [R3fs; R4fs] end.
Definition types_of_signal (s : signal) : list ptype :=
  match s with REPH => [R2g; R3g; R1fs] | NONR => [R1g; R4g; R2fs] | DCs => [R3fs; R4fs] end.

Definition lnum (l : level) : nat :=
  match l with Off => 0 | Signals => 1 | Processes => 2 | Types => 3 | Pathways => 4 end.

Definition ptype_eqb (a b : ptype) : bool :=
  match a, b with
  | R1g, R1g | R2g, R2g | R3g, R3g | R4g, R4g | R1fs, R1fs | R2fs, R2fs | R3fs, R3fs | R4fs, R4fs => true
  | _, _ => false
  end.
Definition otag_eqb (a b : option Z) : bool :=
  match a, b with Some x, Some y => Z.eqb x y | None, None => true | _, _ => false end.

(* which variant of the pathways-level setter: the pinned tree stores a value under tag None
   (type-level add into a pathways store, double counting); the repaired tree refuses it *)
Inductive variant := NoneTagStored | NoneTagRefused.

Section Model.
  Context {R : StarRing}.
  Open Scope sr_scope.

  Record st := mkSt {
    res : level;                 (* storage_resolution *)
    init : bool;                 (* storage_initialized *)
    attr : bool;                 (* the attribute _d__data exists *)
    cur : dtype;                 (* current_dtype *)
    ctag : option Z;             (* current_tag *)
    pw : list (ptype * option Z * R);   (* pathways store, insertion order *)
    ty : ptype -> option R;
    pr : process -> option R;
    sg : signal -> option R;
    tot : option R
  }.

  Definition none_p : ptype -> option R := fun _ => None.
  Definition none_q : process -> option R := fun _ => None.
  Definition none_s : signal -> option R := fun _ => None.

  Definition fresh : st := mkSt Pathways false false DTot None [] none_p none_q none_s None.

  Definition oadd (a : R) (o : option R) : R := match o with Some v => a + v | None => a end.
  Definition lsum (l : list R) : R := fold_right (fun v a => v + a) 0 l.

  Definition pw_of (s : st) (p : ptype) : list (option Z * R) :=
    map (fun e => (snd (fst e), snd e)) (filter (fun e => ptype_eqb (fst (fst e)) p) (pw s)).
  Definition pw_type_sum (s : st) (p : ptype) : R := lsum (map snd (pw_of s p)).
  Fixpoint alookup (t : option Z) (l : list (option Z * R)) : option R :=
    match l with [] => None | (t', v) :: l' => if otag_eqb t t' then Some v else alookup t l' end.

  Inductive rd := RVal (v : option R) | RErr.

  (* _types_to_processes / _types_to_signals *)
  Definition types_sum (s : st) (ps : list ptype) : option R :=
    if init s then Some (fold_left (fun a p => oadd a (ty s p)) ps 0)
    else fold_left (fun a p => match ty s p with
                               | Some v => match a with Some x => Some (x + v) | None => Some v end
                               | None => a end) ps None.
  Definition osum {K} (f : K -> option R) (ks : list K) : R := fold_left (fun a k => oadd a (f k)) ks 0.

  (* the d__data getter *)
  Definition read (s : st) : rd :=
    if negb (attr s) then RErr else
    match res s with
    | Pathways =>
        match cur s with
        | DP p => if init s then
                    match pw_of s p with
                    | [] => RVal (Some 0)
                    | piece => match ctag s with
                               | Some t => match alookup (Some t) piece with Some v => RVal (Some v) | None => RErr end
                               | None => RVal (Some (lsum (map snd piece)))
                               end
                    end
                  else RVal None
        | DQ q => if init s then RVal (Some (lsum (map (pw_type_sum s) (types_of_process q)))) else RVal None
        | DS g => if init s then RVal (Some (lsum (map (pw_type_sum s) (types_of_signal g)))) else RErr
        | DTot => if init s then RVal (Some (lsum (map (fun g => lsum (map (pw_type_sum s) (types_of_signal g))) all_signals)))
                  else RErr
        | DUnknown => RErr
        end
    | Types =>
        match cur s with
        | DP p => RVal (ty s p)
        | DQ q => RVal (types_sum s (types_of_process q))
        | DS g => RVal (types_sum s (types_of_signal g))
        | DTot => if init s
                  then RVal (Some (fold_left (fun a q => oadd a (types_sum s (types_of_process q))) all_processes 0))
                  else RVal None
        | DUnknown => RErr
        end
    | Processes =>
        match cur s with
        | DQ q => RVal (pr s q)
        | DTot => if init s then RVal (Some (osum (pr s) all_processes)) else RVal None
        | _ => RErr
        end
    | Signals =>
        match cur s with
        | DS g => RVal (sg s g)
        | DTot => if init s then RVal (Some (osum (sg s) all_signals)) else RVal None
        | _ => RErr
        end
    | Off =>
        match cur s with
        | DTot => RVal (tot s)
        | _ => RErr
        end
    end.

  Definition set_flag (s : st) (d : dtype) (t : option Z) : st :=
    mkSt (res s) (init s) (attr s) d t (pw s) (ty s) (pr s) (sg s) (tot s).

  Definition upd_p (f : ptype -> option R) (p : ptype) (v : R) : ptype -> option R :=
    fun p' => if ptype_eqb p' p then Some v else f p'.
  Definition process_eqb (a b : process) : bool :=
    match a, b with GSB, GSB | SE, SE | ESA, ESA | DCp, DCp => true | _, _ => false end.
  Definition signal_eqb (a b : signal) : bool :=
    match a, b with REPH, REPH | NONR, NONR | DCs, DCs => true | _, _ => false end.
  Definition upd_q (f : process -> option R) (q : process) (v : R) : process -> option R :=
    fun q' => if process_eqb q' q then Some v else f q'.
  Definition upd_s (f : signal -> option R) (g : signal) (v : R) : signal -> option R :=
    fun g' => if signal_eqb g' g then Some v else f g'.

  (* first statement of the setter: create the storage if it is not initialised *)
  Definition ensure_init (s : st) : st :=
    if init s then s else mkSt (res s) true true (cur s) (ctag s) [] none_p none_q none_s None.

  (* the d__data setter; (state, accepted) *)
  Definition write (vr : variant) (s0 : st) (v : R) : st * bool :=
    let s := ensure_init s0 in
    match res s with
    | Pathways =>
        match cur s with
        | DP p =>
            match vr, ctag s with
            | NoneTagRefused, None => (s, false)
            | _, _ =>
                match alookup (ctag s) (pw_of s p) with
                | Some _ => (s, false)
                | None => (mkSt (res s) (init s) (attr s) (cur s) (ctag s) (pw s ++ [(p, ctag s, v)]) (ty s) (pr s) (sg s) (tot s), true)
                end
            end
        | _ => (s, false)
        end
    | Types =>
        match cur s with
        | DP p => (mkSt (res s) (init s) (attr s) (cur s) (ctag s) (pw s) (upd_p (ty s) p v) (pr s) (sg s) (tot s), true)
        | _ => (s, false)
        end
    | Signals =>
        match cur s with
        | DS g => (mkSt (res s) (init s) (attr s) (cur s) (ctag s) (pw s) (ty s) (pr s) (upd_s (sg s) g v) (tot s), true)
        | _ => (s, false)
        end
    | Processes =>
        match cur s with
        | DQ q => (mkSt (res s) (init s) (attr s) (cur s) (ctag s) (pw s) (ty s) (upd_q (pr s) q v) (sg s) (tot s), true)
        | _ => (s, false)
        end
    | Off =>
        match cur s with
        | DTot => (mkSt (res s) (init s) (attr s) (cur s) (ctag s) (pw s) (ty s) (pr s) (sg s) (Some v), true)
        | _ => (s, false)
        end
    end.

  (* odata = try self.d__data except None;  self.d__data = data | odata + data *)
  Definition accumulate (vr : variant) (s : st) (data : R) : st * bool :=
    let odata := match read s with RVal o => o | RErr => None end in
    write vr s (match odata with Some o => o + data | None => data end).

  (* _add_data(data, resolution, dtype, tag); (state, accepted) *)
  Definition add_data (vr : variant) (s0 : st) (data : R) (reso : option level) (d : dtype) (t : option Z) : st * bool :=
    let s :=
      if init s0 then s0
      else mkSt (match reso with Some r => r | None => res s0 end) true true (cur s0) (ctag s0) [] none_p none_q none_s None in
    let go (r : level) :=
      match r with
      | Pathways => match d, t with
                    | DP _, Some _ => accumulate vr (set_flag s d t) data
                    | _, _ => (s, false)
                    end
      | Types => match d, t with
                 | DP _, None => accumulate vr (set_flag s d None) data
                 | _, _ => (s, false)
                 end
      | Processes => match d, t with
                     | DQ _, None => accumulate vr (set_flag s d None) data
                     | _, _ => (s, false)
                     end
      | Signals => match d, t with
                   | DS _, None => accumulate vr (set_flag s d None) data
                   | _, _ => (s, false)
                   end
      | Off => match d, t with
               | DTot, None => accumulate vr (set_flag s d None) data
               | _, _ => (s, false)
               end
      end in
    match reso with
    | None => go (res s)
    | Some r => if Nat.leb (lnum r) (lnum (res s)) then go r else (s, false)
    end.

  (* one elementary conversion *)
  Definition with_store (s : st) (r : level) pw' ty' pr' sg' tot' : st :=
    mkSt r (init s) true (cur s) (ctag s) pw' ty' pr' sg' tot'.
  Definition oget (o : option R) : R := match o with Some v => v | None => 0 end.
  Definition conv (s : st) (new : level) : option st :=
    match res s, new with
    | Pathways, Types =>
        Some (with_store s Types [] (fun p => Some (if attr s then pw_type_sum s p else 0)) none_q none_s None)
    | Types, Processes =>
        Some (with_store s Processes [] none_p (fun q => Some (oget (types_sum s (types_of_process q)))) none_s None)
    | Types, Signals =>
        Some (with_store s Signals [] none_p none_q (fun g => Some (oget (types_sum s (types_of_signal g)))) None)
    | Signals, Off =>
        Some (with_store s Off [] none_p none_q none_s (if init s then Some (osum (sg s) all_signals) else None))
    | Processes, Off =>
        Some (with_store s Off [] none_p none_q none_s (if init s then Some (osum (pr s) all_processes) else None))
    | _, _ => None
    end.

  (* _conversion_paths *)
  Definition conv_path (old new : level) : option (list level) :=
    match old, new with
    | Pathways, Types => Some [Types] | Pathways, Processes => Some [Types; Processes]
    | Pathways, Signals => Some [Types; Signals] | Pathways, Off => Some [Types; Processes; Off]
    | Types, Processes => Some [Processes] | Types, Signals => Some [Signals] | Types, Off => Some [Processes; Off]
    | Processes, Off => Some [Off] | Signals, Off => Some [Off]
    | _, _ => None
    end.
  Fixpoint conv_along (s : st) (path : list level) : option st :=
    match path with
    | [] => Some s
    | l :: rest => match conv s l with Some s' => conv_along s' rest | None => None end
    end.

  (* set_resolution; None = unknown resolution string *)
  Definition set_resolution (s : st) (new : option level) : st * bool :=
    match new with
    | None => (s, false)
    | Some n =>
        if Nat.ltb (lnum (res s)) (lnum n) then (s, false)
        else if Nat.ltb (lnum n) (lnum (res s)) then
          match conv_path (res s) n with
          | Some path => match conv_along s path with Some s' => (s', true) | None => (s, false) end
          | None => (s, false)
          end
        else (s, true)
    end.

  (* operations of a history *)
  Inductive op :=
  | OAdd (data : R) (reso : option level) (d : dtype) (t : option Z)
  | OSetRes (new : option level)
  | ORead (d : dtype) (t : option Z) (as_list : bool).   (* set_data_flag then read d__data *)

  Definition step (vr : variant) (s : st) (o : op) : st * bool * rd :=
    match o with
    | OAdd data reso d t => let '(s', ok) := add_data vr s data reso d t in (s', ok, RErr)
    | OSetRes new => let '(s', ok) := set_resolution s new in (s', ok, RErr)
    | ORead d t as_list => let s' := set_flag s d (if as_list then t else None) in (s', true, read s')
    end.

  Fixpoint run (vr : variant) (s : st) (ops : list op) : st * list (bool * rd) :=
    match ops with
    | [] => (s, [])
    | o :: rest => let '(s', ok, r) := step vr s o in
                   let '(s'', outs) := run vr s' rest in (s'', (ok, r) :: outs)
    end.

  (* ---- views: what a reader sees; defined at every level (junk where not readable) ---- *)
  Definition view_type (s : st) (p : ptype) : R :=
    match res s with Pathways => pw_type_sum s p | Types => oget (ty s p) | _ => 0 end.
  Definition view_process (s : st) (q : process) : R :=
    match res s with
    | Pathways | Types => lsum (map (view_type s) (types_of_process q))
    | Processes => oget (pr s q)
    | _ => 0
    end.
  Definition view_signal (s : st) (g : signal) : R :=
    match res s with
    | Pathways | Types => lsum (map (view_type s) (types_of_signal g))
    | Signals => oget (sg s g)
    | _ => 0
    end.
  Definition view_total (s : st) : R :=
    match res s with
    | Pathways | Types => lsum (map (view_type s) all_ptypes)
    | Processes => lsum (map (fun q => oget (pr s q)) all_processes)
    | Signals => lsum (map (fun g => oget (sg s g)) all_signals)
    | Off => oget (tot s)
    end.
  Definition view_pathway (s : st) (p : ptype) (t : Z) : R :=
    match res s with Pathways => oget (alookup (Some t) (pw_of s p)) | _ => 0 end.
End Model.

(* ---- executable instance over Z for the correspondence ---- *)
From QV Require Import Base.Util.
Definition rd_eqb (a b : @rd ZR) : bool :=
  match a, b with
  | RErr, RErr => true
  | RVal None, RVal None => true
  | RVal (Some x), RVal (Some y) => Z.eqb x y
  | _, _ => false
  end.
Definition level_eqb (a b : level) : bool := Nat.eqb (lnum a) (lnum b).

(* canonical dump of the store, as get_all_data / _d__data show it *)
Definition dump (s : @st ZR) : list (nat * option Z * Z) :=
  let idx {A} (eqb : A -> A -> bool) (l : list A) (x : A) :=
      fst (fold_left (fun '(k, i) y => if eqb y x then (i, S i) else (k, S i)) l (0%nat, 0%nat)) in
  match res s with
  | Pathways => map (fun e => (idx ptype_eqb all_ptypes (fst (fst e)), snd (fst e), snd e)) (pw s)
  | Types => flat_map (fun p => match ty s p with Some v => [(idx ptype_eqb all_ptypes p, None, v)] | None => [] end) all_ptypes
  | Processes => flat_map (fun q => match pr s q with Some v => [(idx process_eqb all_processes q, None, v)] | None => [] end) all_processes
  | Signals => flat_map (fun g => match sg s g with Some v => [(idx signal_eqb all_signals g, None, v)] | None => [] end) all_signals
  | Off => match tot s with Some v => [(0%nat, None, v)] | None => [] end
  end.

(* dictionaries: compared as sets of (key, value) *)
Definition dump_eqb (a b : list (nat * option Z * Z)) : bool :=
  let e x y := Nat.eqb (fst (fst x)) (fst (fst y)) && otag_eqb (snd (fst x)) (snd (fst y)) && Z.eqb (snd x) (snd y) in
  Nat.eqb (length a) (length b) && forallb (fun x => existsb (e x) b) a && forallb (fun y => existsb (fun x => e x y) a) b.

(* a case: ops, and what the implementation showed after each op (accepted, read result), and at the
   end (resolution, initialised, dump) *)
Definition case19 := (list (@op ZR) * list (bool * @rd ZR) * (level * bool * list (nat * option Z * Z)))%type.
Definition case_agrees (vr : variant) (c : case19) : bool :=
  let '(ops, outs, (r, i, dmp)) := c in
  let '(s, mouts) := run vr fresh ops in
  all2 (fun a b => Bool.eqb (fst a) (fst b) && rd_eqb (snd a) (snd b)) mouts outs
  && level_eqb (res s) r && Bool.eqb (init s) i && (negb i || dump_eqb (dump s) dmp).
