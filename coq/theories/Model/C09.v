(* Model of the arithmetic of bath correlation functions / spectral densities
   (quantarhei/qm/corfunctions/correlationfunctions.py: __init__, __add__, __iadd__, add_to_data,
   add_to_data2, _set_temperature_and_cutoff_time; spectraldensities.py: same names).
   Data vectors are pointwise, so one scalar of a commutative ring stands for the data array; the
   component generators are oracles (functions of the component and of the ftype used for dispatch).
   Executable definitions only. *)
From Coq Require Import ZArith List Bool QArith.
From QV Require Import Base.Alg.
Import ListNotations.

(* how the constructor's second loop chooses the generator of a component:
   the pinned tree dispatches every component on the ftype left over from the LAST component *)
Inductive dispatch := StaleFtype | OwnFtype.
(* in-place addition: the pinned tree adds the data and only then compares temperatures *)
Inductive iadd_order := MutateThenCheck | CheckThenMutate.

Section Model.
  Context {R : StarRing}.
  Open Scope sr_scope.

  Record comp := mkComp {
    ftype : nat;          (* which analytic family *)
    ctemp : Z;            (* temperature (any injective encoding) *)
    clam : R;             (* reorganisation energy, internal units *)
    ccut : Q;             (* cut-off time contributed by the component *)
    cid : nat             (* identity of the parameter dictionary *)
  }.

  (* oracle: data generated for a component when dispatched as family [f] *)
  Variable gen : nat -> comp -> R.

  Record cf := mkCf {
    comps : list comp;    (* self.params *)
    lamb : R;
    temp : option Z;      (* None = -1.0 (not yet set) *)
    cutoff : Q;
    data : R
  }.

  Definition qmax (a b : Q) : Q := if Qle_bool a b then b else a.

  Definition last_ftype (cs : list comp) : nat := ftype (last cs (mkComp 0 0%Z 0 0%Q 0)).

  (* one iteration of the second loop: _make_xxx(prms) = _add_me, lamb +=, _set_temperature_and_cutoff_time *)
  Definition make_one (f : nat) (acc : option cf) (c : comp) : option cf :=
    match acc with
    | None => None
    | Some o =>
        match temp o with
        | Some t => if Z.eqb t (ctemp c)
                    then Some (mkCf (comps o) (lamb o + clam c) (Some t) (qmax (cutoff o) (ccut c)) (data o + gen f c))
                    else None                     (* "Inconsistent temperature!" *)
        | None => Some (mkCf (comps o) (lamb o + clam c) (Some (ctemp c)) (qmax (cutoff o) (ccut c)) (data o + gen f c))
        end
    end.

  (* CorrelationFunction(axis, params=cs) with values=None; None = exception *)
  Definition ctor (dv : dispatch) (cs : list comp) : option cf :=
    fold_left (fun acc c => make_one (match dv with StaleFtype => last_ftype cs | OwnFtype => ftype c end) acc c)
              cs (Some (mkCf cs 0 None 0%Q 0)).

  Definition temp_eqb (a b : option Z) : bool :=
    match a, b with Some x, Some y => Z.eqb x y | None, None => true | _, _ => false end.

  (* add_to_data: mutates first, raises afterwards (on a private copy in __add__) *)
  Definition add_to_data (o other : cf) : option cf :=
    if temp_eqb (temp o) (temp other)
    then Some (mkCf (comps o ++ comps other) (lamb o + lamb other) (temp o) (qmax (cutoff o) (cutoff other)) (data o + data other))
    else None.

  (* a + b : rebuild the left operand from its parameters, then add the right one *)
  Definition add (dv : dispatch) (a b : cf) : option cf :=
    match ctor dv (comps a) with
    | Some f => add_to_data f b
    | None => None
    end.

  (* x += y (y a different object): returns the new value of x and whether an exception was raised *)
  Definition iadd (io : iadd_order) (x y : cf) : cf * bool :=
    if temp_eqb (temp x) (temp y)
    then (mkCf (comps x ++ comps y) (lamb x + lamb y) (temp x) (qmax (cutoff x) (cutoff y)) (data x + data y), false)
    else match io with
         | MutateThenCheck => (mkCf (comps x) (lamb x + lamb y) (temp x) (qmax (cutoff x) (cutoff y)) (data x + data y), true)
         | CheckThenMutate => (x, true)
         end.
  (* x += x : the right operand is first rebuilt from the parameters *)
  Definition iadd_self (dv : dispatch) (io : iadd_order) (x : cf) : option (cf * bool) :=
    match ctor dv (comps x) with Some y => Some (iadd io x y) | None => None end.

  (* SpectralDensity (spectraldensities.py): add_to_data / add_to_data2 carry no temperature test and no cut-off time;
     a + b and x += x rebuild an operand with the class's own constructor [sdctor] *)
  Definition sd_add_to_data (o other : cf) : cf :=
    mkCf (comps o ++ comps other) (lamb o + lamb other) (temp o) (cutoff o) (data o + data other).
  (* SpectralDensity(axis, params) on a list of components: one loop (dispatch and maker in the same iteration), nothing is
     refused; the temperature is the last component's; a spectral density has no cut-off time *)
  Definition sd_make_one (f : nat) (o : cf) (c : comp) : cf :=
    mkCf (comps o ++ [c]) (lamb o + clam c) (Some (ctemp c)) (cutoff o) (data o + gen f c).
  (* the CP29 maker as the pinned tree has it (known finding sd:cp29:composed / sd:cp29:declared_units): it receives the
     component as submitted, OVERWRITES the data and the reorganisation energy accumulated by the components before it,
     and stores the reorganisation energy in the units of declaration ([lraw c]; [d] = the data it makes from the raw set) *)
  Definition sd_make_one_cp29_pinned (lraw : comp -> R) (o : cf) (c : comp) (d : R) : cf :=
    mkCf (comps o ++ [c]) (lraw c) (Some (ctemp c)) (cutoff o) d.
  Definition sd_ctor (cs : list comp) : option cf :=
    Some (fold_left (fun o c => sd_make_one (ftype c) o c) cs (mkCf [] 0 None 0%Q 0)).
  Definition sd_add (sdctor : list comp -> option cf) (a b : cf) : option cf :=
    match sdctor (comps a) with Some f => Some (sd_add_to_data f b) | None => None end.
  Definition sd_iadd_self (sdctor : list comp -> option cf) (x : cf) : option cf :=
    match sdctor (comps x) with Some y => Some (sd_add_to_data x y) | None => None end.

  (* expression trees over leaves *)
  Inductive expr := Leaf (o : cf) | Plus (a b : expr).
  Fixpoint eval (dv : dispatch) (e : expr) : option cf :=
    match e with
    | Leaf o => Some o
    | Plus a b => match eval dv a, eval dv b with
                  | Some x, Some y => add dv x y
                  | _, _ => None
                  end
    end.
  Fixpoint leaves (e : expr) : list cf :=
    match e with Leaf o => [o] | Plus a b => leaves a ++ leaves b end.

  (* programs run by the correspondence check: a tree, or a tree added in place to another / to itself *)
  Inductive prog := PExpr (e : expr) | PIadd (a b : expr) | PIaddSelf (a : expr).
  Definition run_prog (dv : dispatch) (io : iadd_order) (p : prog) : option (cf * bool) :=
    match p with
    | PExpr e => match eval dv e with Some r => Some (r, false) | None => None end
    | PIadd a b => match eval dv a, eval dv b with Some x, Some y => Some (iadd io x y) | _, _ => None end
    | PIaddSelf a => match eval dv a with Some x => iadd_self dv io x | None => None end
    end.

  (* an object whose data are what its parameters generate (analytically parameterised) *)
  Definition lsumR (l : list R) : R := fold_right (fun v a => v + a) 0 l.
  Definition lmaxQ (l : list Q) : Q := fold_left qmax l 0%Q.
End Model.

(* ---- executable instance for the correspondence: scalars are rationals, one run per sample point ---- *)
From QV Require Import Base.Util.
From Coq Require Import Qcanon.
(* a leaf as the harness describes it: components (ftype, temperature, reorganisation energy, cut-off, id),
   or a value-defined object with its own data *)
Inductive leafspec :=
| LAnalytic (cs : list (nat * Z * Q * Q * nat))
| LValues (c : nat * Z * Q * Q * nat) (vals : list Q).
Inductive tspec := TLeaf (l : leafspec) | TPlus (a b : tspec).
Inductive pspec := SExpr (e : tspec) | SIadd (a b : tspec) | SIaddSelf (a : tspec).

Definition mkc (c : nat * Z * Q * Q * nat) : @comp QR :=
  let '(f, t, l, q, i) := c in mkComp (R:=QR) f t (Q2Qc l) q i.
(* table: for component id i, the data of that component alone at the sample points *)
Definition gen_tab (tab : list (list Q)) (j : nat) (f : nat) (c : @comp QR) : QR := Q2Qc (nth j (nth (cid c) tab []) 0%Q).

Fixpoint tleaf (tab : list (list Q)) (j : nat) (l : leafspec) : option (@cf QR) :=
  match l with
  | LAnalytic cs => ctor (gen_tab tab j) OwnFtype (map mkc cs)
  | LValues c vals => let c' := mkc c in Some (mkCf [c'] (clam c') (Some (ctemp c')) 0%Q (Q2Qc (nth j vals 0%Q)))
  end.
Fixpoint texpr (tab : list (list Q)) (j : nat) (t : tspec) : option (@expr QR) :=
  match t with
  | TLeaf l => option_map Leaf (tleaf tab j l)
  | TPlus a b => match texpr tab j a, texpr tab j b with Some x, Some y => Some (Plus x y) | _, _ => None end
  end.
Definition tprog (tab : list (list Q)) (j : nat) (p : pspec) : option (@prog QR) :=
  match p with
  | SExpr e => option_map PExpr (texpr tab j e)
  | SIadd a b => match texpr tab j a, texpr tab j b with Some x, Some y => Some (PIadd x y) | _, _ => None end
  | SIaddSelf a => option_map PIaddSelf (texpr tab j a)
  end.

(* what the implementation showed: None (exception before anything) or
   (raised, component ids, reorganisation energy, temperature, cut-off, data at the sample points) *)
Definition obs := option (bool * list nat * Q * Z * Q * list Q)%type.
Definition close (tol x y : Q) : bool := Qle_bool (Qabs.Qabs (x - y)) tol.
Definition case09 := (list (list Q) * nat * pspec * obs * Q)%type.
Definition case_agrees (io : iadd_order) (c : case09) : bool :=
  let '(tab, npts, p, o, tol) := c in
  forallb (fun j =>
    match tprog tab j p with
    | None => match o with None => true | Some _ => false end
    | Some pr =>
        match run_prog (gen_tab tab j) OwnFtype io pr, o with
        | None, None => true
        | Some (r, raised), Some (raised', ids, l, t, q, ds) =>
            Bool.eqb raised raised' && all2 Nat.eqb (map (@cid QR) (comps r)) ids && close tol (this (lamb r)) l &&
            (match temp r with Some t' => Z.eqb t' t | None => false end) && Qeq_bool (cutoff r) q &&
            close tol (this (data r)) (nth j ds 0%Q)
        | _, _ => false
        end
    end) (seq 0 npts).
