(* Effect model of the calls named by property C15 (executable definitions only).

   Every API call is a straight-line program over the *fields* of the shared objects; the numerical
   kernels (tensor constructors, Taylor propagation loops, hierarchy right-hand sides, ...) are
   uninterpreted symbols applied to the values of the fields the code reads.  Transcribed from

     quantarhei/builders/opensystem.py       get_RelaxationTensor, get_RedfieldRateMatrix
     quantarhei/qm/hilbertspace/hamiltonian.py  subtract_cutoff_coupling / recover_cutoff_coupling
     quantarhei/qm/propagators/rdmpropagator.py propagate, setDtRefinement, _INIT_EXP, _BOOT_DEPH,
                                                 __propagate_short_exp_with_TD_relaxation (has_Iterm)
     quantarhei/qm/propagators/svpropagator.py, poppropagator.py   propagate
     quantarhei/qm/liouvillespace/heom.py     KTHierarchyPropagator.propagate, KTHierarchy.reset_ados
     quantarhei/qm/liouvillespace/evolutionsuperoperator.py   calculate, _initialize_data

   A model is run in an *interpretation* (carrier, meaning of the symbols, application).  The theorems
   hold in every interpretation satisfying the one algebraic law the code relies on (recovering the
   cut-off coupling undoes its subtraction); the correspondence check runs the same definitions in the
   free interpretation (terms), where equality of values is equality of data-flow. *)
From Coq Require Import List Bool Arith.
Import ListNotations.

(* ---- objects ------------------------------------------------------------------------------ *)
(* relaxation tensors kept in the shared world: standard Redfield (tensor, secular, operator form),
   time dependent Redfield (tensor, operator form), Foerster, time dependent Foerster, combined
   Redfield-Foerster, Lindblad form *)
Inductive tk := T | TS | O | TD | TDO | F | TDF | CRF | LF.
(* density matrix propagators: Hamiltonian only, with one of the tensors, tensor + Lorentzian /
   Gaussian pure dephasing, operator form + Lorentzian pure dephasing *)
Inductive pk := PH | PT (k : tk) | PPD | PPDG | POPD.
(* evolution superoperators: with one of the tensors, tensor + Lorentzian / Gaussian pure dephasing *)
Inductive ek := ET (k : tk) | EPD | EPDG.

Inductive field :=
  (* Hamiltonian object *)
  | HamData | HamJR | HamHasRem | HamProt | HamRest
  (* system-bath interaction (operators, correlation functions), its lazily filled caches, its
     transformation state; second interaction object with Lindblad operators *)
  | Sbi | CCHofts | CCGofts | CCTrans | LSbi
  | Time | Rho | Psi | Pop | PDephL | PDephG | Mgr
  (* OpenSystem's record of the last tensor built *)
  | SysCache
  (* tensors: data, accompanying Hamiltonian (when it is a new object), has_Iterm flag *)
  | Tens (k : tk) | TensHam (k : tk) | TensIt (k : tk)
  (* density matrix propagator: (Nref, dt), has_Iterm, (expo, t0) of _BOOT_DEPH, everything else *)
  | PConf (p : pk) | PIterm (p : pk) | PExpo (p : pk) | PRest (p : pk)
  | SvConf | KK | PopConf
  (* hierarchy: description (indices, links, Gamma, lam, gamma, kBT), auxiliary operators, report *)
  | HyDesc | HyAdo | HyHpop | HeomConf | HeomDesc
  | EsoData (e : ek) | EsoRwa (e : ek) | EsoConf (e : ek)
  (* arguments of the call: Nref, order L of the expansion, coupling cut-off, and the energy units
     current while the call is made (0 = internal; not state a call may change) *)
  | ArgNref | ArgL | ArgCut | ArgUnits
  (* result of the call and locals *)
  | Res | Tmp0 | Tmp1 | Tmp2.

Inductive sym :=
  | CTrue | CFalse | CZeros | CNone | COne | CNat (n : nat)
  | KPair | KMkConf
  | KRedfield (k : tk) | KFoerster (k : tk) | KRedFoe (k : tk) | KLindblad | KDiag0 | KRemoveCut
  | KSubData | KSubJR | KAddBack | KC2H | KC2G | KTransCC | KRate
  | KPropH | KPropT | KPropO | KPropTD | KPropTDO | KPropPD | KPropOPD | KExpo
  | KSv | KPopRun
  | KInit0 | KInitFree | KHeomRun | KHeomFinal | KHpop
  | KEsoInit | KEsoRun.

Inductive expr := Rd (f : field) | Sy (s : sym) | Ap (a b : expr).

Fixpoint apl (h : expr) (args : list expr) : expr :=
  match args with [] => h | a :: r => apl (Ap h a) r end.
Definition ap (s : sym) (args : list expr) : expr := apl (Sy s) args.

(* ---- decidable equality (by hand: executable and small) ------------------------------------- *)
Definition tk_code (k : tk) : nat :=
  match k with T => 0 | TS => 1 | O => 2 | TD => 3 | TDO => 4 | F => 5 | TDF => 6 | CRF => 7 | LF => 8 end.
Definition tk_eqb (a b : tk) : bool := Nat.eqb (tk_code a) (tk_code b).
Definition pk_eqb (a b : pk) : bool :=
  match a, b with
  | PH, PH | PPD, PPD | PPDG, PPDG | POPD, POPD => true
  | PT x, PT y => tk_eqb x y
  | _, _ => false
  end.
Definition ek_eqb (a b : ek) : bool :=
  match a, b with
  | EPD, EPD | EPDG, EPDG => true
  | ET x, ET y => tk_eqb x y
  | _, _ => false
  end.

Definition field_eqb (a b : field) : bool :=
  match a, b with
  | HamData, HamData | HamJR, HamJR | HamHasRem, HamHasRem | HamProt, HamProt | HamRest, HamRest
  | Sbi, Sbi | CCHofts, CCHofts | CCGofts, CCGofts | CCTrans, CCTrans | LSbi, LSbi
  | Time, Time | Rho, Rho | Psi, Psi | Pop, Pop | PDephL, PDephL | PDephG, PDephG | Mgr, Mgr
  | SysCache, SysCache | SvConf, SvConf | KK, KK | PopConf, PopConf
  | HyDesc, HyDesc | HyAdo, HyAdo | HyHpop, HyHpop | HeomConf, HeomConf | HeomDesc, HeomDesc
  | ArgNref, ArgNref | ArgL, ArgL | ArgCut, ArgCut | ArgUnits, ArgUnits
  | Res, Res | Tmp0, Tmp0 | Tmp1, Tmp1 | Tmp2, Tmp2 => true
  | Tens x, Tens y | TensHam x, TensHam y | TensIt x, TensIt y => tk_eqb x y
  | PConf x, PConf y | PIterm x, PIterm y | PExpo x, PExpo y | PRest x, PRest y => pk_eqb x y
  | EsoData x, EsoData y | EsoRwa x, EsoRwa y | EsoConf x, EsoConf y => ek_eqb x y
  | _, _ => false
  end.

Definition sym_eqb (a b : sym) : bool :=
  match a, b with
  | CTrue, CTrue | CFalse, CFalse | CZeros, CZeros | CNone, CNone | COne, COne
  | KPair, KPair | KMkConf, KMkConf | KLindblad, KLindblad | KDiag0, KDiag0 | KRemoveCut, KRemoveCut
  | KSubData, KSubData | KSubJR, KSubJR | KAddBack, KAddBack | KC2H, KC2H | KC2G, KC2G
  | KTransCC, KTransCC | KRate, KRate
  | KPropH, KPropH | KPropT, KPropT | KPropO, KPropO | KPropTD, KPropTD | KPropTDO, KPropTDO
  | KPropPD, KPropPD | KPropOPD, KPropOPD | KExpo, KExpo | KSv, KSv | KPopRun, KPopRun
  | KInit0, KInit0 | KInitFree, KInitFree | KHeomRun, KHeomRun | KHeomFinal, KHeomFinal | KHpop, KHpop
  | KEsoInit, KEsoInit | KEsoRun, KEsoRun => true
  | CNat n, CNat m => Nat.eqb n m
  | KRedfield x, KRedfield y | KFoerster x, KFoerster y | KRedFoe x, KRedFoe y => tk_eqb x y
  | _, _ => false
  end.

Fixpoint expr_eqb (a b : expr) : bool :=
  match a, b with
  | Rd f, Rd g => field_eqb f g
  | Sy s, Sy t => sym_eqb s t
  | Ap a1 a2, Ap b1 b2 => expr_eqb a1 b1 && expr_eqb a2 b2
  | _, _ => false
  end.

(* ---- interpretations ------------------------------------------------------------------------ *)
Record interp := mkInterp { V : Type; isym : sym -> V; iapp : V -> V -> V }.

(* the algebraic law the code relies on: Hamiltonian.recover_cutoff_coupling (data += JR) undoes
   subtract_cutoff_coupling (data -> reduced couplings, JR -> what was taken away) *)
Definition recover_law (I : interp) : Prop :=
  forall H c : V I,
    iapp I (iapp I (isym I KAddBack) (iapp I (iapp I (isym I KSubData) H) c))
           (iapp I (iapp I (isym I KSubJR) H) c) = H.

(* free interpretation: terms; application normalises the one redex of the law *)
Definition nap (a b : expr) : expr :=
  match a, b with
  | Ap (Sy KAddBack) (Ap (Ap (Sy KSubData) h) c), Ap (Ap (Sy KSubJR) h') c' =>
      if expr_eqb h h' && expr_eqb c c' then h else Ap a b
  | _, _ => Ap a b
  end.
Definition Free : interp := mkInterp expr Sy nap.

(* ---- programs ------------------------------------------------------------------------------- *)
Definition stmt := (field * expr)%type.
Definition prog := list stmt.

Section Run.
  Variable I : interp.
  Definition world := field -> V I.
  Fixpoint eval (w : world) (e : expr) : V I :=
    match e with
    | Rd f => w f
    | Sy s => isym I s
    | Ap a b => iapp I (eval w a) (eval w b)
    end.
  Definition upd (w : world) (f : field) (v : V I) : world :=
    fun g => if field_eqb g f then v else w g.
  Definition step (w : world) (s : stmt) : world := upd w (fst s) (eval w (snd s)).
  Definition exec (p : prog) (w : world) : world := fold_left step p w.
End Run.
Arguments eval {I}. Arguments upd {I}. Arguments step {I}. Arguments exec {I}.

(* ---- the variants of the code --------------------------------------------------------------- *)
Record variant := mkVariant {
  heom_reset : bool;     (* KTHierarchyPropagator.propagate starts from reset auxiliary operators *)
  nref_local : bool;     (* propagate(rhoi, Nref=k) restores the propagator's own (Nref, dt) *)
  rt_finally : bool      (* get_RelaxationTensor undoes protection / cut-off subtraction on exceptions *)
}.
Definition pinned : variant := mkVariant false false false.
Definition repaired : variant := mkVariant true true true.

(* ---- shapes of calls ------------------------------------------------------------------------ *)
Inductive failing := FailCRFTD | FailMR.
Inductive shape :=
  (* constructions whose result is kept as a shared object *)
  | BuildT (k : tk) | BuildP (p : pk) | BuildSv | BuildKK | BuildPop | BuildHy | BuildHeom
  | BuildEso (e : ek)
  (* the calls of the property *)
  | RelT (k : tk)                 (* get_RelaxationTensor (LF: LindbladForm(ham, sbi)) *)
  | RelTFail (w : failing)        (* a construction that raises inside the constructor *)
  | RateM                         (* get_RedfieldRateMatrix *)
  | DMProp (p : pk) (big : bool)  (* propagate(rho [, Nref = ArgNref]); big: Nref > 1 was passed *)
  | SvProp | PopProp
  | Heom (report free : bool)
  | EsoCalc (e : ek).

Definition r (f : field) := Rd f.
Definition c (s : sym) := Sy s.

(* Hamiltonian a tensor comes with: the shared one, or a new object made by the construction *)
Definition own_ham (k : tk) : bool := match k with F | TDF | CRF => true | _ => false end.
Definition hamf (k : tk) : field := if own_ham k then TensHam k else HamData.
Definition ham_has_rwa (k : tk) : bool := match k with CRF => false | _ => true end.

(* body of get_RelaxationTensor; leaves the tensor in Tmp0 and the Hamiltonian to use with it in Tmp2 *)
Definition relt_body (k : tk) : prog :=
  match k with
  | T | TS | O | TD | TDO =>
      [ (HamProt, c CTrue);                                         (* ham.protect_basis() *)
        (Tmp0, ap (KRedfield k) [r HamData; r Sbi]);                (* with eigenbasis_of(ham): tensor *)
        (HamProt, c CFalse);                                        (* ham.unprotect_basis() *)
        (Tmp2, r HamData) ]
  | F | TDF =>
      [ (CCHofts, ap KC2H [r Sbi]);                                 (* sbi.CC.create_one_integral() *)
        (Tmp0, ap (KFoerster k) [r HamData; r Sbi; r CCHofts; r ArgUnits]);
        (* ham_0 = Hamiltonian(data = diagonal of ham._data): the constructor reads the numbers in the
           units current at the call *)
        (Tmp2, ap KDiag0 [r HamData; r HamRest; r ArgUnits]) ]
  | CRF =>
      [ (HamJR, ap KSubJR [r HamData; r ArgCut]);                   (* subtract_cutoff_coupling *)
        (HamData, ap KSubData [r HamData; r ArgCut]);
        (HamHasRem, c CTrue);
        (HamProt, c CTrue);
        (Tmp0, ap (KRedFoe k) [r HamData; r HamJR; r HamHasRem; r Sbi; r ArgCut]);
        (HamProt, c CFalse);
        (HamData, ap KAddBack [r HamData; r HamJR]);                (* recover_cutoff_coupling *)
        (HamJR, c CZeros);
        (HamHasRem, c CFalse);
        (Tmp2, ap KRemoveCut [r HamData; r ArgCut]) ]               (* ham1 *)
  | LF => [ (Tmp0, ap KLindblad [r HamData; r LSbi]); (Tmp2, r HamData) ]
  end.
Definition relt_tail (k : tk) : prog :=
  (Res, ap KPair [r Tmp0; r Tmp2]) ::
  match k with LF => [] | _ => [ (SysCache, r Res) ] end.  (* LindbladForm is built directly *)

Definition reltfail (v : variant) (w : failing) : prog :=
  match w with
  | FailCRFTD =>       (* time dependent combined tensor: the constructor raises *)
      [ (HamJR, ap KSubJR [r HamData; r ArgCut]);
        (HamData, ap KSubData [r HamData; r ArgCut]);
        (HamHasRem, c CTrue);
        (HamProt, c CTrue) ] ++
      (if rt_finally v then
         [ (HamProt, c CFalse);
           (HamData, ap KAddBack [r HamData; r HamJR]);
           (HamJR, c CZeros);
           (HamHasRem, c CFalse) ] else []) ++
      [ (Res, c CNone) ]
  | FailMR =>          (* modified Redfield: transforms the correlation functions, then raises *)
      [ (HamProt, c CTrue);
        (CCTrans, ap KTransCC [r HamData; r Sbi]);                 (* sbi.CC.transform(SS), never undone *)
        (CCGofts, ap KC2G [r Sbi]);                                 (* create_double_integral *)
        (CCHofts, ap KC2H [r Sbi]) ] ++                             (* create_one_integral *)
      (if rt_finally v then [ (HamProt, c CFalse) ] else []) ++
      [ (Res, c CNone) ]
  end.

(* tensor, Hamiltonian, pure dephasing and kernel of a density matrix propagator *)
Definition dm_tensor (p : pk) : option tk :=
  match p with PH => None | PT k => Some k | PPD | PPDG => Some T | POPD => Some O end.
Definition dm_ham (p : pk) : field := match p with PT k => hamf k | _ => HamData end.
Definition is_td (k : tk) : bool := match k with TD | TDF => true | _ => false end.

Definition dm_body (p : pk) : prog :=
  let common := [r (dm_ham p); r Rho; r Time; r (PConf p); r (PRest p); r ArgL] in
  match p with
  | PH => [ (Res, ap KPropH common) ]
  | PT k =>
      match k with
      | O | LF => [ (Res, ap KPropO (r (Tens k) :: common)) ]
      | TDO => [ (Res, ap KPropTDO (r (Tens k) :: common)) ]
      | TD | TDF =>
          [ (PIterm p, r (TensIt k));                  (* self.has_Iterm = self.RelaxationTensor.has_Iterm *)
            (Res, ap KPropTD (r (Tens k) :: r (PIterm p) :: common)) ]
      | _ => [ (Res, ap KPropT (r (Tens k) :: r (PIterm p) :: common)) ]    (* _GET_IR reads has_Iterm *)
      end
  | PPD => [ (PExpo p, ap KExpo [r PDephL; r (PConf p)]);                  (* _BOOT_DEPH *)
             (Res, ap KPropPD (r (Tens T) :: r (PIterm p) :: r PDephL :: r (PExpo p) :: common)) ]
  | PPDG => [ (PExpo p, ap KExpo [r PDephG; r (PConf p)]);
              (Res, ap KPropPD (r (Tens T) :: r (PIterm p) :: r PDephG :: r (PExpo p) :: common)) ]
  | POPD => [ (PExpo p, ap KExpo [r PDephL; r (PConf p)]);
              (Res, ap KPropOPD (r (Tens O) :: r PDephL :: r (PExpo p) :: common)) ]
  end.

Definition dm_prog (v : variant) (p : pk) (big : bool) : prog :=
  (if big then
     (if nref_local v then [ (Tmp1, r (PConf p)) ] else []) ++
     [ (PConf p, ap KMkConf [r ArgNref; r (PRest p)]) ]            (* setDtRefinement(Nref) *)
   else []) ++
  dm_body p ++
  (if big && nref_local v then [ (PConf p, r Tmp1) ] else []).

Definition heom_prog (v : variant) (report free : bool) : prog :=
  (if heom_reset v then [ (HyAdo, c CZeros) ] else []) ++
  [ (HyAdo, ap (if free then KInitFree else KInit0) [r HyAdo; r Rho]);   (* ado[0 or 1] = rhoi.data *)
    (HeomConf, c COne);                                                     (* self.Nref = 1 *)
    (Tmp0, ap KHeomRun [r HyAdo; r HamData; r HamRest; r HyDesc; r HeomDesc; r Sbi; r Time; r ArgL;
                        c (if free then CTrue else CFalse)]) ] ++
  (if report
   then [ (HyHpop, ap KHpop [r HyAdo; r HamData; r HamRest; r HyDesc; r HeomDesc; r Sbi; r Time; r ArgL;
                             c (if free then CTrue else CFalse)]);
          (Res, ap KPair [r Tmp0; r HyHpop]) ]
   else [ (Res, r Tmp0) ]) ++
  [ (HyAdo, ap KHeomFinal [r HyAdo; r HamData; r HamRest; r HyDesc; r HeomDesc; r Sbi; r Time; r ArgL;
                           c (if free then CTrue else CFalse)]) ].

Definition eso_tensor (e : ek) : tk := match e with ET k => k | _ => T end.
Definition eso_args (e : ek) : list expr :=
  let k := eso_tensor e in
  [r (hamf k); r (Tens k); r Time; r (EsoConf e)] ++
  match e with EPD => [r PDephL] | EPDG => [r PDephG] | _ => [] end.

Definition rate_prog : prog :=
  [ (HamProt, c CTrue); (Res, ap KRate [r HamData; r Sbi; r ArgUnits]); (HamProt, c CFalse) ].

Definition prog_of (v : variant) (s : shape) : prog :=
  match s with
  | RelT k => relt_body k ++ relt_tail k
  | RelTFail w => reltfail v w
  | RateM => rate_prog
  | DMProp p big => dm_prog v p big
  | SvProp => [ (Res, ap KSv [r HamData; r HamRest; r Psi; r Time; r SvConf; r ArgL]) ]
  | PopProp => [ (Res, ap KPopRun [r KK; r Pop; r Time; r PopConf]) ]
  | Heom report free => heom_prog v report free
  | EsoCalc e =>
      [ (EsoData e, ap KEsoRun (eso_args e)) ] ++              (* _initialize_data + propagation *)
      (if ham_has_rwa (eso_tensor e) then [ (EsoRwa e, c CTrue) ] else []) ++
      [ (Res, ap KPair [r (EsoData e); r (EsoRwa e)]) ]
  | BuildT k =>
      relt_body k ++ relt_tail k ++
      [ (Tens k, r Tmp0); (TensIt k, c CFalse) ] ++
      (if own_ham k then [ (TensHam k, r Tmp2) ] else [])
  (* constructor (Nref = 1) followed, when the propagator is configured with its own refinement, by
     setDtRefinement(k): ArgNref carries k (1 = none) *)
  | BuildP p => [ (PConf p, ap KMkConf [r ArgNref; r (PRest p)]); (PIterm p, c CFalse); (PExpo p, c CNone);
                  (Res, c CNone) ]
  | BuildSv | BuildPop => [ (Res, c CNone) ]
  | BuildKK => rate_prog ++ [ (KK, r Res) ]
  | BuildHy => [ (HyAdo, c CZeros); (HyHpop, c CNone); (Res, c CNone) ]
  | BuildHeom => [ (HeomConf, c CNone); (Res, c CNone) ]
  | BuildEso e => [ (EsoData e, ap KEsoInit [r Time; r (hamf (eso_tensor e))]); (EsoRwa e, c CFalse);
                    (Res, c CNone) ]
  end.

(* the calls the property quantifies over (constructions that are kept as shared objects re-define
   those objects, they are not calls *on* them; the modified-Redfield construction cannot complete
   with the pinned SciPy and changes the correlation functions: recorded finding, excluded) *)
Definition api (s : shape) : bool :=
  match s with
  | BuildT _ | BuildP _ | BuildSv | BuildKK | BuildPop | BuildHy | BuildHeom | BuildEso _ => false
  | RelTFail FailMR => false
  | _ => true
  end.

(* ---- calls and histories --------------------------------------------------------------------- *)
Record call := mkCall { sh : shape; a_nref : nat; a_L : nat; a_cut : nat; a_units : nat }.

Section Hist.
  Variable I : interp.
  Definition setargs (w : world I) (cl : call) : world I :=
    upd (upd (upd (upd w ArgNref (isym I (CNat (a_nref cl)))) ArgL (isym I (CNat (a_L cl))))
             ArgCut (isym I (CNat (a_cut cl)))) ArgUnits (isym I (CNat (a_units cl))).
  Definition docall (v : variant) (w : world I) (cl : call) : world I :=
    exec (prog_of v (sh cl)) (setargs w cl).
  Definition run (v : variant) (h : list call) (w : world I) : world I := fold_left (docall v) h w.
  Definition result (v : variant) (w : world I) (cl : call) : V I := docall v w cl Res.
End Hist.
Arguments setargs {I}. Arguments docall {I}. Arguments run {I}. Arguments result {I}.

(* ---- which fields are inputs ------------------------------------------------------------------ *)
(* objects passed in and the configuration of the propagators: must keep their values *)
Definition is_input (f : field) : bool :=
  match f with
  | HamData | HamHasRem | HamProt | HamRest | Sbi | CCTrans | LSbi | Time | Rho | Psi | Pop
  | PDephL | PDephG | Mgr | Tens _ | TensHam _ | TensIt _ | PConf _ | PRest _ | SvConf | KK | PopConf
  | HyDesc | HeomDesc | EsoConf _ => true
  (* has_Iterm of a propagator is read (_GET_IR) and only the time dependent tensor path sets it *)
  | PIterm p => negb (match p with PT k => is_td k | _ => false end)
  (* is_in_rwa of an evolution superoperator whose Hamiltonian has no RWA is never set by calculate *)
  | EsoRwa e => negb (ham_has_rwa (eso_tensor e))
  | _ => false
  end.
(* working state a call may leave changed: HamJR (scratch of the cut-off), the correlation function
   caches, SysCache, PIterm / PExpo (recomputed by every run that reads them), HyAdo / HyHpop /
   HeomConf, EsoData / EsoRwa (the evolution superoperator IS the result of calculate), arguments,
   Res and locals *)

(* worlds in which the caller has not protected the Hamiltonian and no cut-off is pending *)
Definition clean {I} (w : world I) : Prop := w HamProt = isym I CFalse /\ w HamHasRem = isym I CFalse.

(* symbolic start: every field holds itself, the two flags their clean values *)
Definition s0 : world Free :=
  fun f => match f with HamProt | HamHasRem => Sy CFalse | _ => Rd f end.

Fixpoint fields_of (e : expr) : list field :=
  match e with Rd f => [f] | Sy _ => [] | Ap a b => fields_of a ++ fields_of b end.

Definition sym_run (v : variant) (s : shape) : world Free := exec (prog_of v s) s0.

Definition all_tk := [T; TS; O; TD; TDO; F; TDF; CRF; LF].
Definition all_pk := PH :: map PT all_tk ++ [PPD; PPDG; POPD].
Definition all_ek := map ET all_tk ++ [EPD; EPDG].
Definition all_fields : list field :=
  [HamData; HamJR; HamHasRem; HamProt; HamRest; Sbi; CCHofts; CCGofts; CCTrans; LSbi; Time; Rho; Psi; Pop;
   PDephL; PDephG; Mgr; SysCache] ++
  map Tens all_tk ++ map TensHam all_tk ++ map TensIt all_tk ++
  map PConf all_pk ++ map PIterm all_pk ++ map PExpo all_pk ++ map PRest all_pk ++
  [SvConf; KK; PopConf; HyDesc; HyAdo; HyHpop; HeomConf; HeomDesc] ++
  map EsoData all_ek ++ map EsoRwa all_ek ++ map EsoConf all_ek ++
  [ArgNref; ArgL; ArgCut; ArgUnits; Res; Tmp0; Tmp1; Tmp2].
Definition input_fields : list field := filter is_input all_fields.

(* the two finite checks behind the theorems *)
Definition preserves (v : variant) (s : shape) : bool :=
  forallb (fun f => expr_eqb (sym_run v s f) (s0 f)) input_fields.
Definition reads_inputs_only (v : variant) (s : shape) : bool :=
  forallb (fun f => is_input f || match f with ArgNref | ArgL | ArgCut | ArgUnits => true | _ => false end)
          (fields_of (sym_run v s Res)).

(* ---- correspondence: the free run of a history, observed through equalities ------------------- *)
Definition is_scratch (f : field) : bool :=
  match f with ArgNref | ArgL | ArgCut | ArgUnits | Res | Tmp0 | Tmp1 | Tmp2 => true | _ => false end.
Definition tracked : list field := filter (fun f => negb (is_scratch f)) all_fields.

(* fields of the object a Build call creates (not compared: they come into existence) *)
Definition own (s : shape) (f : field) : bool :=
  match s, f with
  | BuildT k, (Tens k' | TensHam k' | TensIt k') => tk_eqb k k'
  | BuildP p, (PConf p' | PIterm p' | PExpo p' | PRest p') => pk_eqb p p'
  | BuildSv, SvConf | BuildKK, KK | BuildPop, PopConf => true
  | BuildHy, (HyDesc | HyAdo | HyHpop) | BuildHeom, (HeomConf | HeomDesc) => true
  | BuildEso e, (EsoData e' | EsoRwa e' | EsoConf e') => ek_eqb e e'
  | _, _ => false
  end.

Definition changed (s : shape) (w w' : world Free) : list field :=
  filter (fun f => negb (own s f) && negb (expr_eqb (w f) (w' f))) tracked.

(* index of the first earlier result equal to this one (own index if none) *)
Fixpoint first_eq (x : expr) (seen : list expr) (k : nat) : nat :=
  match seen with
  | [] => k
  | y :: rest => if expr_eqb x y then k else first_eq x rest (S k)
  end.

(* initial world of the harness: the shared input objects exist, flags clean *)
Definition w_init : world Free := s0.

Fixpoint trace (v : variant) (h : list call) (w : world Free) (seen : list expr)
  : list (list field * nat) :=
  match h with
  | [] => []
  | cl :: rest =>
      let w' := docall v w cl in
      let x := w' Res in
      (changed (sh cl) w w', first_eq x seen 0) :: trace v rest w' (seen ++ [x])
  end.

Fixpoint fl_eqb (a b : list field) : bool :=
  match a, b with
  | [], [] => true
  | x :: a', y :: b' => field_eqb x y && fl_eqb a' b'
  | _, _ => false
  end.
Fixpoint obs_eqb (a b : list (list field * nat)) : bool :=
  match a, b with
  | [], [] => true
  | (f1, n1) :: a', (f2, n2) :: b' => fl_eqb f1 f2 && Nat.eqb n1 n2 && obs_eqb a' b'
  | _, _ => false
  end.

(* a case: history and what the implementation showed (changed fields in the order of [tracked],
   equality class of the result) *)
Definition case15 := (list call * list (list field * nat))%type.
Definition case_agrees (v : variant) (cs : case15) : bool :=
  obs_eqb (trace v (fst cs) w_init []) (snd cs).

(* ---- static tie (harness/translate_c15.py): what the code of a call may write ------------------- *)
(* kinds of the last write to a field, as the analysis of the source classifies them: any value; a literal constant;
   the value read from the same location before the call touched it (a restore); the two halves of the cut-off
   subtraction and its recovery (recover_law); never written on some path *)
Inductive wkind := WAny | WConst (s : sym) | WRestore | WSub | WAddBack | WNone.
Definition may_change (f : field) (k : wkind) : bool :=
  match k with
  | WAny | WSub => true
  | WConst c => negb (expr_eqb (s0 f) (Sy c))      (* the two flags start false in a clean world *)
  | WRestore | WAddBack | WNone => false
  end.
Definition mem_field (f : field) (l : list field) : bool := existsb (field_eqb f) l.
(* fields the model's program of a shape writes (scratch excluded), and fields its symbolic run leaves changed *)
Definition model_written (s : shape) : list field := filter (fun f => negb (is_scratch f)) (map fst (prog_of repaired s)).
Definition model_changed (s : shape) : list field := changed s s0 (sym_run repaired s).
Definition written_ok (s : shape) (code : list field) : bool := forallb (fun f => mem_field f (model_written s)) code.
Definition changed_ok (s : shape) (code : list (field * list wkind)) : bool :=
  forallb (fun fk => negb (existsb (may_change (fst fk)) (snd fk)) || mem_field (fst fk) (model_changed s)) code.
Definition covers (s : shape) (code : list field) : bool := forallb (fun f => mem_field f code) (model_written s).

Definition failing_eqb (a b : failing) : bool := match a, b with FailCRFTD, FailCRFTD | FailMR, FailMR => true | _, _ => false end.
Definition shape_eqb (a b : shape) : bool :=
  match a, b with
  | RelT x, RelT y => tk_eqb x y
  | RelTFail x, RelTFail y => failing_eqb x y
  | RateM, RateM | SvProp, SvProp | PopProp, PopProp => true
  | DMProp p x, DMProp q y => pk_eqb p q && Bool.eqb x y
  | Heom r1 f1, Heom r2 f2 => Bool.eqb r1 r2 && Bool.eqb f1 f2
  | EsoCalc x, EsoCalc y => ek_eqb x y
  | _, _ => false
  end.
(* the calls of the property whose code is analysed: all of [api] except RelT LF, which is a bare constructor call
   LindbladForm(ham, sbi) (no method of the package between the caller and the constructor) *)
Definition api_shapes : list shape :=
  map RelT [T; TS; O; TD; TDO; F; TDF; CRF] ++ [RelTFail FailCRFTD; RateM] ++
  flat_map (fun p => [DMProp p false; DMProp p true]) all_pk ++ [SvProp; PopProp] ++
  [Heom false false; Heom false true; Heom true false; Heom true true] ++ map EsoCalc all_ek.
