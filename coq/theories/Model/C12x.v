(* Model of the third-order response machinery, second part: the liouville_pathway OBJECT while a generator builds it
   (quantarhei/spectroscopy/diagramatics.py: __init__, add_transition, add_transfer, set_evolution_factor, build,
   orientational_averaging) as a state machine over the calls the generators of
   quantarhei/builders/aggregate_spectroscopy.py make on it, the dispatch of liouville_pathways_3T, and the width /
   centre selection of MockTwoDResponseCalculator.calculate_pathway with the calculator's four separate defaults.
   Executable definitions only.  Model/C12.v's [mkpath] is the closed form of a run of this machine
   (Proofs/C12obj.v); the static tie (harness/translate_c12.py) regenerates the programs and the steps from the source. *)
From Coq Require Import ZArith List Bool String QArith Qcanon Qabs.
From QV Require Import Base.Alg Base.Util Model.C19 Model.C12.
Import ListNotations.

Section X.
  Context {R : StarRing}.
  Open Scope sr_scope.
  Notation vec3 := (@vec3 R).
  Notation sys := (@sys R).
  Notation pway := (@pway R).
  Notation event := (@event R).

  (* ---------------- the calls made on one pathway object, as they are written in the source ---------------- *)
  Inductive xop :=
  | XT (nf ni : nat) (side : Z) (interval : nat) (w g : R)   (* lp.add_transition((nf,ni), side, interval=, width=, deph=) *)
  | XX (fl fr sl sr : nat)                                   (* lp.add_transfer((fl,fr), (sl,sr)) *)
  | XE (evf : R).                                            (* lp.set_evolution_factor(evf) *)
  (* diag.liouville_pathway(ptype, sinit, aggregate=self, order=, pname=, relax_order=, popt_band=) *)
  Record xcall := mkCall { c_ptype : string; c_sinit : nat; c_order : nat; c_pname : string; c_relax : nat; c_popt : nat }.

  Definition pname_of (s : string) : ptype :=
    if String.eqb s "R1g"%string then R1g else if String.eqb s "R2g"%string then R2g else if String.eqb s "R3g"%string then R3g
    else if String.eqb s "R4g"%string then R4g else if String.eqb s "R1f*"%string then R1fs else if String.eqb s "R2f*"%string then R2fs
    else if String.eqb s "R3f*"%string then R3fs else R4fs.
  Definition reph_of (s : string) : bool := String.eqb s "R"%string.
  Definition side_left (s : Z) : bool := Z.eqb s 1.

  Definition erase1 (o : xop) : list event :=
    match o with XT nf ni s k w g => [ET nf ni (side_left s) k w g] | XX fl fr _ _ => [EX fl fr] | XE _ => [] end.
  Definition erase (ops : list xop) : list event := flat_map erase1 ops.
  Fixpoint xevf (ops : list xop) (acc : R) : R :=
    match ops with [] => acc | XE e :: r => xevf r e | _ :: r => xevf r acc end.
  (* the pathway a leaf of a generator contributes, through a maker of Model/C12.v (evolfac starts as 1.0) *)
  Definition xleaf (mk : @maker R) (c : xcall) (ops : list xop) : pway :=
    mk (pname_of (c_pname c)) (reph_of (c_ptype c)) (c_sinit c) (xevf ops 1) (erase ops).

  (* ---------------- well-formed programs: what the closed form [mkpath] presupposes ---------------- *)
  Definition count_T (ops : list xop) : nat := List.length (filter (fun o => match o with XT _ _ _ _ _ _ => true | _ => false end) ops).
  Definition count_X (ops : list xop) : nat := List.length (filter (fun o => match o with XX _ _ _ _ => true | _ => false end) ops).
  Definition op_ok (o : xop) : bool :=
    match o with XT _ _ s k _ _ => (Z.eqb s 1 || Z.eqb s (-1)) && Nat.ltb k 4 | _ => true end.
  Definition has_interval (ops : list xop) : bool :=
    existsb (fun o => match o with XT _ _ _ k _ _ => Nat.ltb 0 k | _ => false end) ops.
  (* every transfer is declared to start from the state the diagram is in (add_transfer's own check) *)
  Fixpoint xx_ok (ops : list xop) (cur : nat * nat) : bool :=
    match ops with
    | [] => true
    | XT nf _ s _ _ _ :: r => xx_ok r (if side_left s then (nf, snd cur) else (fst cur, nf))
    | XX fl fr sl sr :: r => Nat.eqb (fst cur) sl && Nat.eqb (snd cur) sr && xx_ok r (fl, fr)
    | XE _ :: r => xx_ok r cur
    end.
  Definition xwf (c : xcall) (ops : list xop) : bool :=
    Nat.eqb (c_order c) 3 && Nat.eqb (count_T ops) 4 && Nat.eqb (count_X ops) (c_relax c) && forallb op_ok ops &&
    has_interval ops && xx_ok ops (c_sinit c, 0%nat) && (String.eqb (c_ptype c) "R"%string || String.eqb (c_ptype c) "NR"%string).

  (* ---------------- the object ---------------- *)
  Definition upd {A} (f : nat -> A) (i : nat) (v : A) : nat -> A := fun j => if Nat.eqb j i then v else f j.
  Record lp := mkLp {
    l_call : xcall;
    l_cur : nat * nat;                 (* self.current *)
    l_nint : nat; l_nrel : nat; l_ne : nat;
    l_trans : nat -> nat * nat;        (* self.transitions[k,:], order+1 rows *)
    l_sides : nat -> Z;                (* self.sides *)
    l_dm : nat -> vec3;                (* self.dmoments[k,:] *)
    l_freq : nat -> R;                 (* self.frequency, 1+order+relax_order entries *)
    l_wd : option ((nat -> R) * (nat -> R));   (* self.widths, self.dephs: None until a transition names an interval *)
    l_evf : R                          (* self.evolfac *)
  }.
  (* __init__: self.current[0] = sinit is written twice, current[1] stays 0 *)
  Definition lp_new (c : xcall) : lp :=
    mkLp c (c_sinit c, 0%nat) 0 0 0 (fun _ => (0%nat, 0%nat)) (fun _ => 0%Z) (fun _ => vzero) (fun _ => 0) None 1.
  Definition nslots (c : xcall) : nat := (1 + c_order c + c_relax c)%nat.
  (* sd = (abs(side)-side)//2 *)
  Definition side_index (s : Z) : Z := ((Z.abs s - s) / 2)%Z.
  Definition pick (sd : Z) (cur : nat * nat) : option nat :=
    if Z.eqb sd 0 then Some (fst cur) else if Z.eqb sd 1 then Some (snd cur) else None.
  Definition put (sd : Z) (cur : nat * nat) (v : nat) : nat * nat := if Z.eqb sd 0 then (v, snd cur) else (fst cur, v).
  Definition minus1 : nat -> R := fun _ => mone.

  (* None = the call raises (consistency check, or an index outside an array) *)
  Definition add_transition (Sy : sys) (l : lp) (nf ni : nat) (side : Z) (interval : nat) (w g : R) : option lp :=
    let c := l_call l in
    let sd := side_index side in
    match pick sd (l_cur l) with
    | None => None
    | Some c0 =>
      if negb (Nat.eqb c0 ni) then None
      else if negb (Nat.ltb (l_nint l) (S (c_order c))) then None
      else
        match (if Nat.ltb 0 interval
               then (if Nat.ltb interval 4
                     then Some (Some (match l_wd l with
                                      | None => (upd minus1 interval w, upd minus1 interval g)
                                      | Some wg => (upd (fst wg) interval w, upd (snd wg) interval g)
                                      end))
                     else None)
               else Some (l_wd l)) with
        | None => None
        | Some wd' =>
          let cur' := put sd (l_cur l) nf in
          if negb (Nat.ltb (l_ne l) (nslots c)) then None
          else Some (mkLp c cur' (S (l_nint l)) (l_nrel l) (S (l_ne l))
                          (upd (l_trans l) (l_nint l) (nf, ni)) (upd (l_sides l) (l_nint l) side)
                          (upd (l_dm l) (l_nint l) (DD Sy nf ni))
                          (if Nat.ltb (l_nint l) (c_order c)
                           then upd (l_freq l) (l_ne l) (En Sy (fst cur') - En Sy (snd cur')) else l_freq l)
                          wd' (l_evf l))
        end
    end.

  Definition add_transfer (Sy : sys) (l : lp) (fl fr sl sr : nat) : option lp :=
    let c := l_call l in
    if negb (Nat.eqb (fst (l_cur l)) sl && Nat.eqb (snd (l_cur l)) sr) then None
    else if negb (Nat.ltb (l_nrel l) (c_relax c)) then None
    else if negb (Nat.ltb (l_ne l) (nslots c)) then None
    else Some (mkLp c (fl, fr) (l_nint l) (S (l_nrel l)) (S (l_ne l)) (l_trans l) (l_sides l) (l_dm l)
                    (upd (l_freq l) (l_ne l) (En Sy fl - En Sy fr)) (l_wd l) (l_evf l)).

  Definition set_evf (l : lp) (e : R) : lp :=
    mkLp (l_call l) (l_cur l) (l_nint l) (l_nrel l) (l_ne l) (l_trans l) (l_sides l) (l_dm l) (l_freq l) (l_wd l) e.

  Definition xstep (Sy : sys) (l : lp) (o : xop) : option lp :=
    match o with
    | XT nf ni s k w g => add_transition Sy l nf ni s k w g
    | XX fl fr sl sr => add_transfer Sy l fl fr sl sr
    | XE e => Some (set_evf l e)
    end.
  Fixpoint xrun (Sy : sys) (l : lp) (ops : list xop) : option lp :=
    match ops with
    | [] => Some l
    | o :: r => match xstep Sy l o with Some l' => xrun Sy l' r | None => None end
    end.

  (* integers into the ring (numpy.prod(self.sides) is an integer) *)
  Fixpoint p2r (p : positive) : R :=
    match p with xH => 1 | xO q => two * p2r q | xI q => 1 + two * p2r q end.
  Definition z2r (z : Z) : R := match z with Z0 => 0 | Zpos p => p2r p | Zneg p => - p2r p end.

  (* build() and what the calculator and the harness read of the finished object; None = build() leaves the object
     without sign / F4n (order other than 3) or the calculator cannot index widths (never allocated) *)
  Definition lp_obs (Sy : sys) (l : lp) : option pway :=
    let c := l_call l in
    if negb (Nat.eqb (c_order c) 3) then None
    else match l_wd l with
         | None => None
         | Some wg =>
           Some (mkPw (pname_of (c_pname c)) (reph_of (c_ptype c))
                      (map (l_trans l) (seq 0 (S (c_order c))))
                      (z2r (l_sides l 0 * l_sides l 1 * l_sides l 2 * l_sides l 3)%Z)
                      (F4 (l_dm l 0) (l_dm l 1) (l_dm l 2) (l_dm l 3))
                      (map (l_freq l) (seq 0 (nslots c)))
                      (fst wg 1%nat) (fst wg 3%nat) (snd wg 1%nat) (snd wg 3%nat)
                      (l_evf l) (rho Sy (snd (l_trans l 0))) true)
         end.
  Definition xpath (Sy : sys) (c : xcall) (ops : list xop) : option pway :=
    match xrun Sy (lp_new c) ops with Some l => lp_obs Sy l | None => None end.

  (* ---------------- MockTwoDResponseCalculator.calculate_pathway with its four defaults ---------------- *)
  Section Calc4.
    Variable L : bool -> bool -> R -> R -> R -> R -> R.
    Variable neg : R -> bool.
    Variables dwx dwy dgx dgy : R.            (* self.widthx, self.widthy, self.dephx, self.dephy *)
    Definition sel4 (d c x : R) : R := if neg c then d else x.
    (* what is handed to the line-shape function: Gaussian?, first axis negated?, centre 1, width 1, centre 3, width 3;
       the pinned code tests widths[3] when it selects dephy *)
    Definition calc_args4 (gauss : bool) (p : pway) : bool * bool * R * R * R * R :=
      let cen1 := nth 0 (pw_freq p) 0 in
      let cen3 := nth (List.length (pw_freq p) - 2)%nat (pw_freq p) 0 in
      let wx := sel4 dwx (pw_w1 p) (pw_w1 p) in let wy := sel4 dwy (pw_w3 p) (pw_w3 p) in
      let gx := sel4 dgx (pw_g1 p) (pw_g1 p) in let gy := sel4 dgy (pw_w3 p) (pw_g3 p) in
      if gauss then (true, pw_reph p, cen1, wx, cen3, wy) else (false, pw_reph p, cen1, gx, cen3, gy).
    Definition contrib4 (gauss : bool) (FM : vec3) (p : pway) : R :=
      let '(ga, fl, c1, w1, c3, w3) := calc_args4 gauss p in pref FM p * L ga fl c1 w1 c3 w3.
  End Calc4.
End X.

(* ---------------------------------------------------------------------------------- *)
(*  executable instance over the Gaussian rationals for the correspondence check       *)
(* ---------------------------------------------------------------------------------- *)
Local Open Scope Q_scope.
(* what the harness reads of a real liouville_pathway object after a program of calls that did not raise *)
Record oobj := mkOobj {
  oo_cur : nat * nat; oo_nint : nat; oo_nrel : nat; oo_ne : nat;
  oo_trans : list (nat * nat); oo_sides : list Z; oo_dm : list (list Q); oo_freq : list Q;
  oo_wd : option (list Q * list Q); oo_evf : Q * Q;
  oo_built : option (list Q * Z * (Q * Q))      (* after build() and orientational_averaging(): F4n, sign, pref *)
}.
Definition v_close (tol : Q) (v : @vec3 GQ) (l : list Q) : bool := all2 (rclose tol) [vx v; vy v; vz v] l.
Definition lp_agrees (tol : Q) (Sy : @sys GQ) (FM : @vec3 GQ) (l : @lp GQ) (o : oobj) : bool :=
  let c := l_call l in
  pair_eqb (l_cur l) (oo_cur o) && Nat.eqb (l_nint l) (oo_nint o) && Nat.eqb (l_nrel l) (oo_nrel o) && Nat.eqb (l_ne l) (oo_ne o) &&
  Nat.eqb (List.length (oo_trans o)) (S (c_order c)) && Nat.eqb (List.length (oo_freq o)) (nslots c) &&
  all2 pair_eqb (map (l_trans l) (seq 0 (S (c_order c)))) (oo_trans o) &&
  all2 Z.eqb (map (l_sides l) (seq 0 (S (c_order c)))) (oo_sides o) &&
  all2 (v_close tol) (map (l_dm l) (seq 0 (S (c_order c)))) (oo_dm o) &&
  all2 (rclose tol) (map (l_freq l) (seq 0 (nslots c))) (oo_freq o) &&
  match l_wd l, oo_wd o with
  | None, None => true
  | Some wg, Some ow => all2 (rclose tol) (map (fst wg) (seq 0 4)) (fst ow) && all2 (rclose tol) (map (snd wg) (seq 0 4)) (snd ow)
  | _, _ => false
  end &&
  gclose tol (l_evf l) (oo_evf o) &&
  match oo_built o with
  | None => true
  | Some (f4, sg, pf) =>
      let F := F4 (l_dm l 0%nat) (l_dm l 1%nat) (l_dm l 2%nat) (l_dm l 3%nat) in
      let s := z2r (l_sides l 0%nat * l_sides l 1%nat * l_sides l 2%nat * l_sides l 3%nat)%Z in
      v_close tol F f4 && gq_eqb s (r2 (inject_Z sg)) &&
      gclose tol (rmul GQ (rmul GQ s (rmul GQ (dot FM F) (rho Sy (snd (l_trans l 0%nat))))) (l_evf l)) pf &&
      match lp_obs Sy l with
      | Some p => v_close tol (pw_F4n p) f4 && gq_eqb (pw_sign p) (r2 (inject_Z sg)) && gclose tol (pref FM p) pf
      | None => match l_wd l with None => true | Some _ => false end
      end
  end.
(* a case: observed system (only HH, DD, rho0 matter), polarisations, constructor call, program, outcome (None = raised) *)
Definition xocase := (obs * list (list Q) * xcall * list (@xop GQ) * option oobj)%type.
Definition xocase_agrees (tol : Q) (c : xocase) : bool :=
  let '(o, es, call, ops, res) := c in
  let FM := lab_FM th30 (v2 (nth 0%nat es [])) (v2 (nth 1%nat es [])) (v2 (nth 2%nat es [])) (v2 (nth 3%nat es [])) in
  match xrun (sys_of o) (lp_new call) ops, res with
  | None, None => true
  | Some l, Some oo => lp_agrees tol (sys_of o) FM l oo
  | _, _ => false
  end.

(* calculate_pathway: what reaches the line-shape function.  A case: frequency array, widths[1], widths[3], dephs[1],
   dephs[3], rephasing?, Gaussian?, the four defaults, and the observed (Gaussian?, axis negated?, cen1, w1, cen3, w3) *)
Definition gq_neg (x : GQ) : bool := negb (Qle_bool 0 (this (fst x))).
Definition selcase := (list Q * (Q * Q * Q * Q) * bool * bool * (Q * Q * Q * Q) * (bool * bool * Q * Q * Q * Q))%type.
Definition selcase_agrees (tol : Q) (c : selcase) : bool :=
  let '(fr, (w1, w3, g1, g3), reph, gauss, (dwx, dwy, dgx, dgy), (oga, ofl, oc1, ow1, oc3, ow3)) := c in
  let p := mkPw R1g reph [] (r1 GQ) vzero (map r2 fr) (r2 w1) (r2 w3) (r2 g1) (r2 g3) (r1 GQ) (r1 GQ) true in
  let '(ga, fl, c1, a1, c3, a3) := calc_args4 gq_neg (r2 dwx) (r2 dwy) (r2 dgx) (r2 dgy) gauss p in
  Bool.eqb ga oga && Bool.eqb fl ofl && rclose tol c1 oc1 && rclose tol a1 ow1 && rclose tol c3 oc3 && rclose tol a3 ow3.
