(* Executable instance of Model.C04 for the correspondence check: basis changes are integer matrices
   (signed permutations, whose inverse is the transpose), data are integer matrices or four-index
   tensors; act S x is the code's Operator.transform / SuperOperator.transform. *)
From Coq Require Import ZArith List Bool Arith.
From QV Require Import Base.Alg Base.Sums Base.Mat Base.Tens Base.Util Model.C04.
Import ListNotations.

(* XM: operators, density matrices, Hamiltonians;  XT: superoperators, relaxation tensors;
   XML: lists of matrices transformed one by one (DensityMatrixEvolution: one per time; TransitionDipoleMoment: three
   components);  XTL: time-dependent tensors;  XVL: state-vector evolutions (v -> S^-1 v per time) *)
Inductive xdata := XM (A : @mat ZR) | XT (T : @tens ZR) | XML (l : list (@mat ZR)) | XTL (l : list (@tens ZR)) | XVL (l : list (@vec ZR)).
Definition gmat := @mat ZR.

Section Inst.
  Variable n : nat.
  Definition x_gid : gmat := @mid ZR.
  Definition x_gmul (A B : gmat) : gmat := tab2 n n (mmul n A B).
  Definition x_ginv (A : gmat) : gmat := tab2 n n (mT A).
  Definition x_act (S : gmat) (x : xdata) : xdata :=
    match x with
    | XM A => XM (tab2 n n (sim n (mT S) S A))
    | XT T => XT (tab4 n (ttrans n (mT S) S T))
    | XML l => XML (map (fun A => tab2 n n (sim n (mT S) S A)) l)
    | XTL l => XTL (map (fun T => tab4 n (ttrans n (mT S) S T)) l)
    | XVL l => XVL (map (fun v => tab n (mv n (mT S) v)) l)
    end.
  Definition x_app (r x : xdata) : xdata :=
    match r, x with
    | XT T, XM A => XM (tab2 n n (tapply n T A))
    | _, _ => x
    end.

  Definition xprog := prog gmat xdata.
  Definition xexec := exec gmat xdata x_gid x_gmul x_ginv x_act x_app.

  Definition mat_eqb (A : @mat ZR) (l : list (list Z)) : bool :=
    forallb (fun i => forallb (fun j => Z.eqb (A i j) (nth j (nth i l []) 0%Z)) (seq 0 n)) (seq 0 n).
  Definition tens_eqb (T : @tens ZR) (l : list (list (list (list Z)))) : bool :=
    forallb (fun a => forallb (fun b => forallb (fun c => forallb (fun d =>
      Z.eqb (T a b c d) (nth d (nth c (nth b (nth a l []) []) []) 0%Z)) (seq 0 n)) (seq 0 n)) (seq 0 n)) (seq 0 n).

  (* what the harness observed *)
  Definition vec_eqb (v : @vec ZR) (l : list Z) : bool := forallb (fun i => Z.eqb (v i) (nth i l 0%Z)) (seq 0 n).
  Inductive xobs := OM (l : list (list Z)) | OT (l : list (list (list (list Z)))) | ONone
                  | OML (l : list (list (list Z))) | OTL (l : list (list (list (list (list Z))))) | OVL (l : list (list Z)).
  Definition x_eqb (x : option xdata) (o : xobs) : bool :=
    match x, o with
    | Some (XM A), OM l => mat_eqb A l
    | Some (XT T), OT l => tens_eqb T l
    | Some (XML ms), OML ls => all2 mat_eqb ms ls
    | Some (XTL ts), OTL ls => all2 tens_eqb ts ls
    | Some (XVL vs), OVL ls => all2 vec_eqb vs ls
    | None, ONone => true
    | _, _ => false
    end.
End Inst.

Definition fresh_mst : mst gmat xdata := mkM gmat xdata [] [] (fun _ => None).

(* a case: dimension, program, raised?, values read (object id, value), final objects (id, tag, protected,
   data), final registered lists (innermost first), final depth *)
Definition case04 := (nat * xprog * bool * list (nat * xobs) * list (nat * nat * bool * xobs) * list (list nat) * nat)%type.
Definition case_agrees (c : case04) : bool :=
  let '(n, p, raised, reads, objs, regs, d) := c in
  let '(s, r, o) := xexec n p fresh_mst in
  Bool.eqb r raised &&
  all2 (fun a b => Nat.eqb (fst a) (fst b) && x_eqb n (snd a) (snd b)) o reads &&
  forallb (fun e => let '(i, t, pr, x) := e in
     match heap _ _ s i with
     | Some ob => Nat.eqb (tag _ ob) t && Bool.eqb (prot _ ob) pr && x_eqb n (Some (dat _ ob)) x
     | None => false
     end) objs &&
  all2 (all2 Nat.eqb) (reg _ _ s) regs && Nat.eqb (depth _ _ s) d.

(* the same comparison without the registration lists and the depth: the values read during the program and the final tag,
   protection flag and data of every object - what the property speaks about (the bookkeeping is a means) *)
Definition case_values_agree (c : case04) : bool :=
  let '(n, p, raised, reads, objs, regs, d) := c in
  let '(s, r, o) := xexec n p fresh_mst in
  Bool.eqb r raised &&
  all2 (fun a b => Nat.eqb (fst a) (fst b) && x_eqb n (snd a) (snd b)) o reads &&
  forallb (fun e => let '(i, t, pr, x) := e in
     match heap _ _ s i with
     | Some ob => Nat.eqb (tag _ ob) t && Bool.eqb (prot _ ob) pr && x_eqb n (Some (dat _ ob)) x
     | None => false
     end) objs.

