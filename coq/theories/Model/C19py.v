(* A small executable semantics of the Python fragment in which quantarhei/spectroscopy/twod2.py's storage code is
   written (dictionary storage with nested tag dictionaries, try/except, early return, loops over tables), as
   combinators: harness/translate_c19.py transcribes the current source of the storage functions into terms built
   from these combinators (Model/C19code.v holds the transcription the refinement proofs of Proofs/C19gen.v are about).
   Arrays are elements of the additive group of a StarRing (value semantics: the translator refuses in-place updates of
   arrays that may be shared with the store).  Executable definitions only. *)
From Coq Require Import ZArith List Bool String.
From QV Require Import Base.Alg Model.C19.
Import ListNotations.
Open Scope string_scope.

(* exceptions; EStuck = behaviour outside this semantics: caught by no handler *)
Inductive exn := EKey | EAttr | EType | EIndex | EUnbound | EValue | EOther | EStuck.
(* handler classes: bare except / except Exception; except KeyError; AttributeError; IndexError; TypeError *)
Inductive hcls := HAll | HKey | HAttr | HIndex | HType.
Definition catches (h : hcls) (e : exn) : bool :=
  match e with
  | EStuck => false
  | _ => match h, e with
         | HAll, _ => true | HKey, EKey => true | HAttr, EAttr => true | HIndex, EIndex => true | HType, EType => true
         | _, _ => false
         end
  end.

Definition dtype_eqb (a b : dtype) : bool :=
  match a, b with
  | DP x, DP y => ptype_eqb x y | DQ x, DQ y => process_eqb x y | DS x, DS y => signal_eqb x y
  | DTot, DTot => true | DUnknown, DUnknown => true | _, _ => false
  end.
(* position of a key in the canonical store *)
Definition kidx (d : dtype) : nat :=
  match d with
  | DP R1g => 0 | DP R2g => 1 | DP R3g => 2 | DP R4g => 3 | DP R1fs => 4 | DP R2fs => 5 | DP R3fs => 6 | DP R4fs => 7
  | DQ GSB => 8 | DQ SE => 9 | DQ ESA => 10 | DQ DCp => 11
  | DS REPH => 12 | DS NONR => 13 | DS DCs => 14 | DTot => 15 | DUnknown => 16
  end%nat.
Definition all_keys : list dtype :=
  [DP R1g; DP R2g; DP R3g; DP R4g; DP R1fs; DP R2fs; DP R3fs; DP R4fs; DQ GSB; DQ SE; DQ ESA; DQ DCp; DS REPH; DS NONR; DS DCs; DTot].
Fixpoint upd_nth {A} (n : nat) (l : list A) (v : A) : list A :=
  match l, n with
  | [], _ => []
  | _ :: l', O => v :: l'
  | x :: l', S n' => x :: upd_nth n' l' v
  end.

Section Py.
  Context {R : StarRing}.
  Open Scope sr_scope.

  Inductive pv :=
  | VUnbound | VNone | VBool (b : bool) | VInt (z : Z) | VLev (l : level) | VKey (d : dtype) | VOther (* some other string *) | VArr (x : R)
  | VList (l : list pv) | VDict (l : list (pv * pv))
  | VStore                      (* the object's storage dictionary (a reference) *)
  | VPieceRef (d : dtype).      (* the tag dictionary stored under key d (a reference) *)

  (* what the storage dictionary holds under a key: an array, or a dictionary tag -> array *)
  Inductive sval := SArr (x : R) | SPiece (l : list (option Z * R)).
  Definition store := list (option sval).          (* indexed by kidx; length 16 *)
  Definition empty_store : store := repeat None 16.
  Definition sget (s : store) (d : dtype) : option sval := nth (kidx d) s None.
  Definition sset (s : store) (d : dtype) (v : sval) : option store :=
    if Nat.ltb (kidx d) 16 then Some (upd_nth (kidx d) s (Some v)) else None.

  Record obj := mkO {
    o_res : level;                (* storage_resolution *)
    o_init : bool;                (* storage_initialized *)
    o_data : option store;        (* _d__data; None = the attribute does not exist *)
    o_cur : dtype;                (* current_dtype *)
    o_tag : option Z              (* current_tag *)
  }.

  Definition env := list (string * pv).
  Fixpoint getv (en : env) (x : string) : pv :=
    match en with [] => VUnbound | (y, v) :: en' => if String.eqb x y then v else getv en' x end.
  Fixpoint setv (en : env) (x : string) (v : pv) : env :=
    match en with
    | [] => [(x, v)]
    | (y, w) :: en' => if String.eqb x y then (y, v) :: en' else (y, w) :: setv en' x v
    end.

  Inductive eres := EOk (o : obj) (v : pv) | EEx (o : obj) (e : exn).
  Inductive bres := BNorm (o : obj) (en : env) | BRet (o : obj) (v : pv) | BExc (o : obj) (en : env) (e : exn).
  Definition expr := obj -> env -> eres.
  Definition blk := obj -> env -> bres.
  Definition fn := obj -> list pv -> eres.
  Definition pres := (exn + pv)%type.

  Definition tagv (t : option Z) : pv := match t with None => VNone | Some z => VInt z end.
  Definition vtag (v : pv) : option (option Z) := match v with VNone => Some None | VInt z => Some (Some z) | _ => None end.

  Definition is_atom (v : pv) : bool := match v with VNone | VBool _ | VInt _ | VLev _ | VKey _ | VOther => true | _ => false end.
  Definition atom_eqb (a b : pv) : option bool :=
    if is_atom a && is_atom b then
      Some (match a, b with
            | VNone, VNone => true
            | VBool x, VBool y => Bool.eqb x y
            | VInt x, VInt y => Z.eqb x y
            | VLev x, VLev y => level_eqb x y
            | VKey x, VKey y => dtype_eqb x y
            | VOther, VOther => true
            | _, _ => false
            end)
    else None.
  Fixpoint atom_in (x : pv) (l : list pv) : option bool :=
    match l with
    | [] => Some false
    | y :: l' => match atom_eqb x y with Some true => Some true | Some false => atom_in x l' | None => None end
    end.
  Fixpoint assoc (k : pv) (l : list (pv * pv)) : option (option pv) :=       (* None = not comparable *)
    match l with
    | [] => Some None
    | (k', v) :: l' => match atom_eqb k k' with Some true => Some (Some v) | Some false => assoc k l' | None => None end
    end.
  Fixpoint assoc_set (k v : pv) (l : list (pv * pv)) : option (list (pv * pv)) :=
    match l with
    | [] => Some [(k, v)]
    | (k', w) :: l' => match atom_eqb k k' with
                       | Some true => Some ((k', v) :: l')
                       | Some false => match assoc_set k v l' with Some r => Some ((k', w) :: r) | None => None end
                       | None => None
                       end
    end.
  Fixpoint piece_set (t : option Z) (x : R) (l : list (option Z * R)) : list (option Z * R) :=
    match l with
    | [] => [(t, x)]
    | (t', w) :: l' => if otag_eqb t t' then (t', x) :: l' else (t', w) :: piece_set t x l'
    end.

  Definition piece_tags (l : list (option Z * R)) : list pv := map (fun e => tagv (fst e)) l.
  Definition piece_of (o : obj) (d : dtype) : option (list (option Z * R)) :=
    match o_data o with
    | Some s => match sget s d with Some (SPiece l) => Some l | _ => None end
    | None => None
    end.

  (* ---- pure primitives (they may read the object through references) ---- *)
  Definition p_eq (a b : pv) : pres := match atom_eqb a b with Some r => inr (VBool r) | None => inl EStuck end.
  Definition p_ne (a b : pv) : pres := match atom_eqb a b with Some r => inr (VBool (negb r)) | None => inl EStuck end.
  Definition p_cmp (f : Z -> Z -> bool) (a b : pv) : pres :=
    match a, b with VInt x, VInt y => inr (VBool (f x y)) | VUnbound, _ | _, VUnbound => inl EStuck | _, _ => inl EType end.
  Definition p_isnone (a : pv) : pres := match a with VUnbound => inl EStuck | VNone => inr (VBool true) | _ => inr (VBool false) end.
  Definition p_isnotnone (a : pv) : pres := match a with VUnbound => inl EStuck | VNone => inr (VBool false) | _ => inr (VBool true) end.
  Definition p_not (a : pv) : pres := match a with VBool b => inr (VBool (negb b)) | _ => inl EStuck end.
  Definition p_isarr (a : pv) : pres := match a with VUnbound => inl EStuck | VArr _ => inr (VBool true) | _ => inr (VBool false) end.
  Definition p_islist (a : pv) : pres := match a with VUnbound => inl EStuck | VList _ => inr (VBool true) | _ => inr (VBool false) end.
  Definition p_add (a b : pv) : pres :=
    match a, b with
    | VArr x, VArr y => inr (VArr (x + y))
    | VInt x, VInt y => inr (VInt (x + y)%Z)
    | VNone, (VArr _ | VInt _ | VNone) | (VArr _ | VInt _), VNone => inl EType
    | _, _ => inl EStuck
    end.
  Definition p_copy (a : pv) : pres := match a with VArr x => inr (VArr x) | VNone => inl EAttr | _ => inl EStuck end.
  Definition p_in (o : obj) (x c : pv) : pres :=
    match c with
    | VList l => match atom_in x l with Some r => inr (VBool r) | None => inl EStuck end
    | VDict l => match atom_in x (map fst l) with Some r => inr (VBool r) | None => inl EStuck end
    | VPieceRef d => match piece_of o d, vtag x with
                     | Some l, Some t => inr (VBool (match alookup t l with Some _ => true | None => false end))
                     | _, _ => inl EStuck
                     end
    | _ => inl EStuck
    end.
  Definition p_notin (o : obj) (x c : pv) : pres := match p_in o x c with inr v => p_not v | inl e => inl e end.
  Definition p_keys (o : obj) (c : pv) : pres :=
    match c with
    | VDict l => inr (VList (map fst l))
    | VPieceRef d => match piece_of o d with Some l => inr (VList (piece_tags l)) | None => inl EStuck end
    | _ => inl EStuck
    end.
  Fixpoint index_of (x : pv) (l : list pv) (k : Z) : pres :=
    match l with
    | [] => inl EValue
    | y :: l' => match atom_eqb x y with Some true => inr (VInt k) | Some false => index_of x l' (k + 1)%Z | None => inl EStuck end
    end.
  Definition p_index (c x : pv) : pres := match c with VList l => index_of x l 0%Z | _ => inl EStuck end.
  Definition p_getitem (o : obj) (c k : pv) : pres :=
    match c with
    | VList l => match k with
                 | VInt z => if (z <? 0)%Z then inl EStuck else match nth_error l (Z.to_nat z) with Some v => inr v | None => inl EIndex end
                 | _ => inl EStuck
                 end
    | VDict l => match assoc k l with Some (Some v) => inr v | Some None => inl EKey | None => inl EStuck end
    | VStore => match o_data o, k with
                | Some s, VKey d => match sget s d with
                                    | Some (SArr x) => inr (VArr x)
                                    | Some (SPiece _) => inr (VPieceRef d)
                                    | None => inl EKey
                                    end
                | _, _ => inl EStuck
                end
    | VPieceRef d => match piece_of o d, vtag k with
                     | Some l, Some t => match alookup t l with Some x => inr (VArr x) | None => inl EKey end
                     | _, _ => inl EStuck
                     end
    | _ => inl EStuck
    end.
  (* c[lo:hi] on a list, non-negative constant bounds *)
  Definition p_slice (c lo hi : pv) : pres :=
    match c, lo, hi with
    | VList l, VInt a, VInt b =>
        if ((a <? 0) || (b <? 0))%Z then inl EStuck
        else inr (VList (firstn (Z.to_nat b - Z.to_nat a) (skipn (Z.to_nat a) l)))
    | _, _, _ => inl EStuck
    end.
  Definition iter_of (o : obj) (c : pv) : exn + list pv :=
    match c with
    | VList l => inr l
    | VDict l => inr (map fst l)
    | VPieceRef d => match piece_of o d with Some l => inr (piece_tags l) | None => inl EStuck end
    | _ => inl EStuck
    end.

  (* ---- attributes of the object ---- *)
  Definition get_attr (o : obj) (a : string) : pres :=
    if String.eqb a "storage_resolution" then inr (VLev (o_res o))
    else if String.eqb a "storage_initialized" then inr (VBool (o_init o))
    else if String.eqb a "_d__data" then match o_data o with Some _ => inr VStore | None => inl EAttr end
    else if String.eqb a "current_dtype" then inr (VKey (o_cur o))
    else if String.eqb a "current_tag" then inr (tagv (o_tag o))
    else inl EStuck.
  Fixpoint store_of_dict (l : list (pv * pv)) (s : store) : option store :=
    match l with
    | [] => Some s
    | (VKey d, VArr x) :: l' => match sset s d (SArr x) with Some s' => store_of_dict l' s' | None => None end
    | (VKey d, VNone) :: l' => store_of_dict l' s            (* a stored None reads like an absent key *)
    | _ => None
    end.
  Definition set_attr (o : obj) (a : string) (v : pv) : option obj :=
    if String.eqb a "storage_resolution" then match v with VLev l => Some (mkO l (o_init o) (o_data o) (o_cur o) (o_tag o)) | _ => None end
    else if String.eqb a "storage_initialized" then match v with VBool b => Some (mkO (o_res o) b (o_data o) (o_cur o) (o_tag o)) | _ => None end
    else if String.eqb a "_d__data" then
      match v with
      | VDict l => match store_of_dict l empty_store with Some s => Some (mkO (o_res o) (o_init o) (Some s) (o_cur o) (o_tag o)) | None => None end
      | _ => None
      end
    else if String.eqb a "current_dtype" then match v with VKey d => Some (mkO (o_res o) (o_init o) (o_data o) d (o_tag o)) | _ => None end
    else if String.eqb a "current_tag" then match vtag v with Some t => Some (mkO (o_res o) (o_init o) (o_data o) (o_cur o) t) | None => None end
    else if String.eqb a "address_length" then match v with VInt _ => Some o | _ => None end
    else None.

  (* c[k] = v : (object, new value of the container variable) *)
  Definition set_item (o : obj) (c k v : pv) : option (obj * pv) :=
    match c with
    | VDict l => match assoc_set k v l with Some l' => Some (o, VDict l') | None => None end
    | VStore => match o_data o, k with
                | Some s, VKey d =>
                    let sv := match v with VArr x => Some (SArr x) | VDict [] => Some (SPiece []) | _ => None end in
                    match sv with
                    | Some w => match sset s d w with
                                | Some s' => Some (mkO (o_res o) (o_init o) (Some s') (o_cur o) (o_tag o), VStore)
                                | None => None
                                end
                    | None => None
                    end
                | _, _ => None
                end
    | VPieceRef d => match o_data o, piece_of o d, vtag k, v with
                     | Some s, Some l, Some t, VArr x =>
                         match sset s d (SPiece (piece_set t x l)) with
                         | Some s' => Some (mkO (o_res o) (o_init o) (Some s') (o_cur o) (o_tag o), VPieceRef d)
                         | None => None
                         end
                     | _, _, _, _ => None
                     end
    | _ => None
    end.

  (* ---- expressions ---- *)
  Definition e_const (v : pv) : expr := fun o _ => EOk o v.
  Definition e_var (x : string) : expr := fun o en => match getv en x with VUnbound => EEx o EUnbound | v => EOk o v end.
  Definition e_attr (a : string) : expr := fun o _ => match get_attr o a with inr v => EOk o v | inl e => EEx o e end.
  Definition e_un (f : pv -> pres) (a : expr) : expr := fun o en =>
    match a o en with
    | EOk o1 x => match f x with inr v => EOk o1 v | inl e => EEx o1 e end
    | r => r
    end.
  Definition e_bin (f : pv -> pv -> pres) (a b : expr) : expr := fun o en =>
    match a o en with
    | EOk o1 x => match b o1 en with
                  | EOk o2 y => match f x y with inr v => EOk o2 v | inl e => EEx o2 e end
                  | r => r
                  end
    | r => r
    end.
  (* primitives that read the object *)
  Definition e_bino (f : obj -> pv -> pv -> pres) (a b : expr) : expr := fun o en =>
    match a o en with
    | EOk o1 x => match b o1 en with
                  | EOk o2 y => match f o2 x y with inr v => EOk o2 v | inl e => EEx o2 e end
                  | r => r
                  end
    | r => r
    end.
  Definition e_uno (f : obj -> pv -> pres) (a : expr) : expr := fun o en =>
    match a o en with
    | EOk o1 x => match f o1 x with inr v => EOk o1 v | inl e => EEx o1 e end
    | r => r
    end.
  Definition e_slice (a lo hi : expr) : expr := fun o en =>
    match a o en with
    | EOk o1 x => match lo o1 en with
                  | EOk o2 y => match hi o2 en with
                                | EOk o3 z => match p_slice x y z with inr v => EOk o3 v | inl e => EEx o3 e end
                                | r => r
                                end
                  | r => r
                  end
    | r => r
    end.
  Definition e_and (a b : expr) : expr := fun o en =>
    match a o en with
    | EOk o1 (VBool false) => EOk o1 (VBool false)
    | EOk o1 (VBool true) => b o1 en
    | EOk o1 _ => EEx o1 EStuck
    | r => r
    end.
  Definition e_or (a b : expr) : expr := fun o en =>
    match a o en with
    | EOk o1 (VBool true) => EOk o1 (VBool true)
    | EOk o1 (VBool false) => b o1 en
    | EOk o1 _ => EEx o1 EStuck
    | r => r
    end.
  Fixpoint eval_args (es : list expr) (o : obj) (en : env) : obj * (exn + list pv) :=
    match es with
    | [] => (o, inr [])
    | e :: es' => match e o en with
                  | EOk o1 v => match eval_args es' o1 en with (o2, inr vs) => (o2, inr (v :: vs)) | r => r end
                  | EEx o1 x => (o1, inl x)
                  end
    end.
  Definition e_list (es : list expr) : expr := fun o en =>
    match eval_args es o en with (o1, inr vs) => EOk o1 (VList vs) | (o1, inl x) => EEx o1 x end.
  Definition e_call (f : fn) (es : list expr) : expr := fun o en =>
    match eval_args es o en with (o1, inr vs) => f o1 vs | (o1, inl x) => EEx o1 x end.

  (* ---- statements ---- *)
  Definition s_skip : blk := fun o en => BNorm o en.
  Definition s_seq (a b : blk) : blk := fun o en => match a o en with BNorm o1 en1 => b o1 en1 | r => r end.
  Definition s_assign (x : string) (e : expr) : blk := fun o en =>
    match e o en with EOk o1 v => BNorm o1 (setv en x v) | EEx o1 x => BExc o1 en x end.
  Definition s_expr (e : expr) : blk := fun o en => match e o en with EOk o1 _ => BNorm o1 en | EEx o1 x => BExc o1 en x end.
  Definition s_return (e : expr) : blk := fun o en => match e o en with EOk o1 v => BRet o1 v | EEx o1 x => BExc o1 en x end.
  Definition s_raise (x : exn) : blk := fun o en => BExc o en x.
  Definition s_if (c : expr) (a b : blk) : blk := fun o en =>
    match c o en with
    | EOk o1 (VBool true) => a o1 en
    | EOk o1 (VBool false) => b o1 en
    | EOk o1 _ => BExc o1 en EStuck
    | EEx o1 x => BExc o1 en x
    end.
  Fixpoint for_loop (x : string) (body : blk) (l : list pv) (o : obj) (en : env) : bres :=
    match l with
    | [] => BNorm o en
    | v :: l' => match body o (setv en x v) with BNorm o1 en1 => for_loop x body l' o1 en1 | r => r end
    end.
  Definition s_for (x : string) (e : expr) (body : blk) : blk := fun o en =>
    match e o en with
    | EOk o1 c => match iter_of o1 c with inr l => for_loop x body l o1 en | inl e' => BExc o1 en e' end
    | EEx o1 x' => BExc o1 en x'
    end.
  Fixpoint handle (hs : list (hcls * blk)) (o : obj) (en : env) (e : exn) : bres :=
    match hs with
    | [] => BExc o en e
    | (h, b) :: hs' => if catches h e then b o en else handle hs' o en e
    end.
  Definition s_try (body : blk) (hs : list (hcls * blk)) : blk := fun o en =>
    match body o en with BExc o1 en1 e => handle hs o1 en1 e | r => r end.
  Definition s_setattr (a : string) (e : expr) : blk := fun o en =>
    match e o en with
    | EOk o1 v => match set_attr o1 a v with Some o2 => BNorm o2 en | None => BExc o1 en EStuck end
    | EEx o1 x => BExc o1 en x
    end.
  (* x[k] = v for a variable x *)
  Definition s_setitem (x : string) (k v : expr) : blk := fun o en =>
    match getv en x with
    | VUnbound => BExc o en EUnbound
    | c => match k o en with
           | EOk o1 kv => match v o1 en with
                          | EOk o2 vv => match set_item o2 c kv vv with
                                         | Some (o3, c') => BNorm o3 (setv en x c')
                                         | None => BExc o2 en EStuck
                                         end
                          | EEx o2 e => BExc o2 en e
                          end
           | EEx o1 e => BExc o1 en e
           end
    end.

  Fixpoint bind_params (ps : list string) (vs : list pv) (en : env) : option env :=
    match ps, vs with
    | [], [] => Some en
    | p :: ps', v :: vs' => bind_params ps' vs' (setv en p v)
    | _, _ => None
    end.
  (* parameters, then the other local names (unbound at first): the environment keeps this shape *)
  Definition def_fun (ps ls : list string) (body : blk) : fn := fun o vs =>
    match bind_params ps vs [] with
    | None => EEx o EStuck
    | Some en => match body o (List.app en (map (fun x => (x, VUnbound)) ls)) with
                 | BNorm o1 _ => EOk o1 VNone | BRet o1 v => EOk o1 v | BExc o1 _ e => EEx o1 e
                 end
    end.
  (* module-level constant expressions *)
  Definition dummy : obj := mkO Pathways false None DTot None.
  Definition eval_const (e : expr) : pv := match e dummy [] with EOk _ v => v | EEx _ _ => VUnbound end.
  (* the storage fields of a new object: evaluated in order on an object without storage *)
  Fixpoint new_obj (fields : list (string * expr)) (o : obj) : option obj :=
    match fields with
    | [] => Some o
    | (a, e) :: fs => match e o [] with
                      | EOk _ v => match set_attr o a v with Some o' => new_obj fs o' | None => None end
                      | EEx _ _ => None
                      end
    end.
  Definition e_zeros : expr := fun o _ => EOk o (VArr 0).
  Definition e_dict (l : list (expr * expr)) : expr := fun o en =>
    match eval_args (map fst l) o en with
    | (o1, inr ks) => match eval_args (map snd l) o1 en with
                      | (o2, inr vs) => EOk o2 (VDict (combine ks vs))
                      | (o2, inl x) => EEx o2 x
                      end
    | (o1, inl x) => EEx o1 x
    end.

  (* ---- the Python object that represents a model state ---- *)
  Definition cstore (s : @st R) (d : dtype) : option sval :=
    match res s, d with
    | Pathways, DP p => match pw_of s p with [] => None | l => Some (SPiece l) end
    | Types, DP p => option_map SArr (ty s p)
    | Processes, DQ q => option_map SArr (pr s q)
    | Signals, DS g => option_map SArr (sg s g)
    | Off, DTot => option_map SArr (tot s)
    | _, _ => None
    end.
  Definition conc (s : @st R) : obj :=
    mkO (res s) (init s) (if attr s then Some (map (cstore s) all_keys) else None) (cur s) (ctag s).

  (* what a call shows to the caller, in the model's terms *)
  Definition rd_of (r : eres) : option (obj * @rd R) :=
    match r with
    | EOk o VNone => Some (o, RVal None)
    | EOk o (VArr x) => Some (o, RVal (Some x))
    | EOk _ _ => None
    | EEx _ EStuck => None
    | EEx o _ => Some (o, RErr)
    end.
  Definition ok_of (r : eres) : option (obj * bool) :=
    match r with
    | EOk o _ => Some (o, true)
    | EEx _ EStuck => None
    | EEx o _ => Some (o, false)
    end.

  (* ---- histories: the operations of Model/C19.v's [op] as calls on the object ---- *)
  Definition oplev (l : option level) : pv := match l with Some x => VLev x | None => VOther end.
  Definition prun_step (add setres flag getter : fn) (o : obj) (x : @op R) : option (obj * (bool * @rd R)) :=
    match x with
    | OAdd data reso d t =>
        match ok_of (add o [VArr data; match reso with Some l => VLev l | None => VNone end; VKey d; tagv t]) with
        | Some (o1, ok) => Some (o1, (ok, RErr))
        | None => None
        end
    | OSetRes new =>
        match ok_of (setres o [oplev new]) with Some (o1, ok) => Some (o1, (ok, RErr)) | None => None end
    | ORead d t as_list =>
        match flag o [if as_list then VList [VKey d; tagv t] else VKey d] with
        | EOk o1 _ => match rd_of (getter o1 []) with Some (o2, r) => Some (o2, (true, r)) | None => None end
        | EEx _ _ => None
        end
    end.
  Fixpoint prun (add setres flag getter : fn) (o : obj) (ops : list (@op R)) : option (obj * list (bool * @rd R)) :=
    match ops with
    | [] => Some (o, [])
    | x :: rest => match prun_step add setres flag getter o x with
                   | Some (o1, out) => match prun add setres flag getter o1 rest with
                                       | Some (o2, outs) => Some (o2, out :: outs)
                                       | None => None
                                       end
                   | None => None
                   end
    end.
End Py.

Arguments e_const {R} v o en /.
Arguments e_var {R} x o en /.
Arguments e_attr {R} a o en /.
Arguments e_un {R} f a o en /.
Arguments e_bin {R} f a b o en /.
Arguments e_bino {R} f a b o en /.
Arguments e_uno {R} f a o en /.
Arguments e_slice {R} a lo hi o en /.
Arguments e_and {R} a b o en /.
Arguments e_or {R} a b o en /.
Arguments e_list {R} es o en /.
Arguments e_call {R} f es o en /.
Arguments e_dict {R} l o en /.
Arguments e_zeros {R} o en /.
Arguments s_skip {R} o en /.
Arguments s_seq {R} a b o en /.
Arguments s_assign {R} x e o en /.
Arguments s_expr {R} e o en /.
Arguments s_return {R} e o en /.
Arguments s_raise {R} x o en /.
Arguments s_if {R} c a b o en /.
Arguments s_for {R} x e body o en /.
Arguments s_try {R} body hs o en /.
Arguments s_setattr {R} a e o en /.
Arguments s_setitem {R} x k v o en /.
Arguments def_fun {R} ps ls body o vs /.
