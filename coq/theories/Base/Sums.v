(* Finite sums  sum n f = f 0 + ... + f (n-1)  over a StarRing, with the algebra needed for
   index-level linear algebra: extensionality on the index range, linearity, Fubini, Kronecker
   delta, conjugation. *)
From Coq Require Import Arith Lia.
From QV Require Import Base.Alg.

Section Sums.
  Context {R : StarRing}.
  Add Ring Rr : (rth R).
  Open Scope sr_scope.

  Fixpoint sum (n : nat) (f : nat -> R) : R :=
    match n with
    | O => 0
    | S k => sum k f + f k
    end.

  Lemma sum_ext n f g : (forall i, (i < n)%nat -> f i = g i) -> sum n f = sum n g.
  Proof.
    induction n as [|n IH]; intros H; cbn [sum]; [reflexivity|].
    rewrite IH by (intros; apply H; lia). rewrite H by lia. reflexivity.
  Qed.

  Lemma sum_0 n : sum n (fun _ => 0) = 0.
  Proof. induction n as [|n IH]; cbn [sum]; [reflexivity|]. rewrite IH; ring. Qed.

  Lemma sum_0_ext n f : (forall i, (i < n)%nat -> f i = 0) -> sum n f = 0.
  Proof. intros H. rewrite (sum_ext n f (fun _ => 0)) by exact H. apply sum_0. Qed.

  Lemma sum_add n f g : sum n (fun i => f i + g i) = sum n f + sum n g.
  Proof. induction n as [|n IH]; cbn [sum]; [ring|]. rewrite IH; ring. Qed.

  Lemma sum_sub n f g : sum n (fun i => f i - g i) = sum n f - sum n g.
  Proof. induction n as [|n IH]; cbn [sum]; [ring|]. rewrite IH; ring. Qed.

  Lemma sum_opp n f : sum n (fun i => - f i) = - sum n f.
  Proof. induction n as [|n IH]; cbn [sum]; [ring|]. rewrite IH; ring. Qed.

  Lemma sum_mul_l n c f : sum n (fun i => c * f i) = c * sum n f.
  Proof. induction n as [|n IH]; cbn [sum]; [ring|]. rewrite IH; ring. Qed.

  Lemma sum_mul_r n c f : sum n (fun i => f i * c) = sum n f * c.
  Proof. induction n as [|n IH]; cbn [sum]; [ring|]. rewrite IH; ring. Qed.

  Lemma sum_swap n m (f : nat -> nat -> R) :
    sum n (fun i => sum m (fun j => f i j)) = sum m (fun j => sum n (fun i => f i j)).
  Proof.
    induction n as [|n IH]; cbn [sum].
    - now rewrite sum_0.
    - rewrite IH, <- sum_add. reflexivity.
  Qed.

  Lemma sum_cj n f : cj R (sum n f) = sum n (fun i => cj R (f i)).
  Proof. induction n as [|n IH]; cbn [sum]; [apply cj_0|]. now rewrite cj_add, IH. Qed.

  (* Kronecker delta *)
  Definition delta (i j : nat) : R := if Nat.eqb i j then 1 else 0.

  Lemma delta_sym i j : delta i j = delta j i.
  Proof. unfold delta. now rewrite Nat.eqb_sym. Qed.

  Lemma delta_same i : delta i i = 1.
  Proof. unfold delta. now rewrite Nat.eqb_refl. Qed.

  Lemma delta_diff i j : i <> j -> delta i j = 0.
  Proof. unfold delta. intros H. apply Nat.eqb_neq in H. now rewrite H. Qed.

  Lemma cj_delta i j : cj R (delta i j) = delta i j.
  Proof. unfold delta. destruct (Nat.eqb i j); [apply cj_1|apply cj_0]. Qed.

  Lemma sum_delta_l n k f : (k < n)%nat -> sum n (fun i => delta k i * f i) = f k.
  Proof.
    induction n as [|n IH]; intros Hk; [lia|]. cbn [sum].
    destruct (Nat.eq_dec k n) as [->|Hne].
    - rewrite delta_same. rewrite sum_0_ext; [ring|].
      intros i Hi. rewrite delta_diff by lia. ring.
    - rewrite IH by lia. rewrite delta_diff by lia. ring.
  Qed.

  Lemma sum_delta_r n k f : (k < n)%nat -> sum n (fun i => f i * delta i k) = f k.
  Proof.
    intros Hk. rewrite (sum_ext n _ (fun i => delta k i * f i)); [now apply sum_delta_l|].
    intros i _. rewrite (delta_sym i k). ring.
  Qed.

  Lemma sum_single n k f : (k < n)%nat -> (forall i, (i < n)%nat -> i <> k -> f i = 0) -> sum n f = f k.
  Proof.
    intros Hk H. rewrite <- (sum_delta_l n k f Hk). apply sum_ext. intros i Hi.
    destruct (Nat.eq_dec i k) as [->|Hne].
    - rewrite delta_same; ring.
    - rewrite (H i Hi Hne). ring.
  Qed.

  Lemma sum_S_first n f : sum (S n) f = f 0%nat + sum n (fun i => f (S i)).
  Proof.
    induction n as [|n IH]; [cbn [sum]; ring|].
    change (sum (S (S n)) f) with (sum (S n) f + f (S n)). rewrite IH. cbn [sum]. ring.
  Qed.

  (* exchanging the two outer with the two inner of four nested sums *)
  Lemma sum4_rot n (g : nat -> nat -> nat -> nat -> R) :
    sum n (fun k => sum n (fun l => sum n (fun i => sum n (fun j => g i j k l)))) =
    sum n (fun i => sum n (fun j => sum n (fun k => sum n (fun l => g i j k l)))).
  Proof.
    (* k l i j -> k i l j *)
    rewrite (sum_ext n _ (fun k => sum n (fun i => sum n (fun l => sum n (fun j => g i j k l)))))
      by (intros k _; apply sum_swap).
    (* k i l j -> k i j l *)
    rewrite (sum_ext n _ (fun k => sum n (fun i => sum n (fun j => sum n (fun l => g i j k l)))))
      by (intros k _; apply sum_ext; intros i _; apply sum_swap).
    (* k i j l -> i k j l *)
    rewrite sum_swap.
    (* i k j l -> i j k l *)
    apply sum_ext. intros i _. apply sum_swap.
  Qed.
End Sums.

