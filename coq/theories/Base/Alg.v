(* Commutative rings with an involution ("conjugation"), packaged as a record so that one proof
   serves every scalar type: the abstract theorems are instantiated by the executable instances
   (Z, Gaussian integers Z*Z, rationals Qc, Gaussian rationals Qc*Qc) that the correspondence
   check runs. Equality is Leibniz equality everywhere. *)
From Coq Require Export Ring.
From Coq Require Import ZArith QArith Qcanon Qabs Bool.

Record StarRing := mkStarRing {
  car :> Type;
  r0 : car; r1 : car;
  radd : car -> car -> car;
  rmul : car -> car -> car;
  rsub : car -> car -> car;
  ropp : car -> car;
  cj : car -> car;
  rth : ring_theory r0 r1 radd rmul rsub ropp (@eq car);
  cj_add : forall x y, cj (radd x y) = radd (cj x) (cj y);
  cj_mul : forall x y, cj (rmul x y) = rmul (cj x) (cj y);
  cj_opp : forall x, cj (ropp x) = ropp (cj x);
  cj_cj : forall x, cj (cj x) = x;
  cj_1 : cj r1 = r1
}.

Declare Scope sr_scope.
Delimit Scope sr_scope with sr.
Notation "0" := (r0 _) : sr_scope.
Notation "1" := (r1 _) : sr_scope.
Infix "+" := (radd _) : sr_scope.
Infix "*" := (rmul _) : sr_scope.
Infix "-" := (rsub _) : sr_scope.
Notation "- x" := (ropp _ x) : sr_scope.

Section Basic.
  Variable R : StarRing.
  Add Ring Rr : (rth R).
  Open Scope sr_scope.

  Lemma cj_0 : cj R 0 = 0.
  Proof.
    assert (cj R 0 + cj R 0 = cj R 0) as H by (rewrite <- cj_add; f_equal; ring).
    transitivity (cj R 0 + cj R 0 - cj R 0); [ring | rewrite H; ring].
  Qed.

  Lemma cj_sub x y : cj R (x - y) = cj R x - cj R y.
  Proof. replace (x - y) with (x + - y) by ring. rewrite cj_add, cj_opp. ring. Qed.

  Definition is_real (x : R) : Prop := cj R x = x.

  Lemma real_0 : is_real 0. Proof. exact cj_0. Qed.
  Lemma real_1 : is_real 1. Proof. exact (cj_1 R). Qed.
  Lemma real_add x y : is_real x -> is_real y -> is_real (x + y).
  Proof. unfold is_real; intros; rewrite cj_add; congruence. Qed.
  Lemma real_mul x y : is_real x -> is_real y -> is_real (x * y).
  Proof. unfold is_real; intros; rewrite cj_mul; congruence. Qed.
  Lemma real_opp x : is_real x -> is_real (- x).
  Proof. unfold is_real; intros; rewrite cj_opp; congruence. Qed.
  Lemma real_sub x y : is_real x -> is_real y -> is_real (x - y).
  Proof. unfold is_real; intros; rewrite cj_sub; congruence. Qed.
End Basic.

(* ---------------------------------------------------------------------------------- *)
(*  instances                                                                         *)
(* ---------------------------------------------------------------------------------- *)

(* integers, trivial conjugation *)
Definition ZR : StarRing.
Proof.
  refine (mkStarRing Z 0%Z 1%Z Z.add Z.mul Z.sub Z.opp (fun x => x) _ _ _ _ _ _); try reflexivity.
  exact Zth.
Defined.

(* rationals in canonical form (Leibniz equality), trivial conjugation *)
Definition QR : StarRing.
Proof.
  refine (mkStarRing Qc (Q2Qc 0) (Q2Qc 1) Qcplus Qcmult Qcminus Qcopp (fun x => x) _ _ _ _ _ _); try reflexivity.
  exact Qcrt.
Defined.

(* complex numbers over a base ring: pairs (re, im) *)
Section Gauss.
  Variable B : StarRing.
  Add Ring Br : (rth B).
  Open Scope sr_scope.
  Definition G := (car B * car B)%type.
  Definition g0 : G := (0, 0).
  Definition g1 : G := (1, 0).
  Definition gadd (x y : G) : G := (fst x + fst y, snd x + snd y).
  Definition gmul (x y : G) : G := (fst x * fst y - snd x * snd y, fst x * snd y + snd x * fst y).
  Definition gopp (x : G) : G := (- fst x, - snd x).
  Definition gsub (x y : G) : G := (fst x - fst y, snd x - snd y).
  Definition gcj (x : G) : G := (fst x, - snd x).

  Lemma g_rth : ring_theory g0 g1 gadd gmul gsub gopp (@eq G).
  Proof.
    constructor; intros; repeat match goal with x : G |- _ => destruct x end;
      unfold g0, g1, gadd, gmul, gopp, gsub; cbn [fst snd]; f_equal; ring.
  Qed.

  Lemma gcj_add x y : gcj (gadd x y) = gadd (gcj x) (gcj y).
  Proof. destruct x, y; unfold gcj, gadd; cbn [fst snd]; f_equal; ring. Qed.
  Lemma gcj_mul x y : gcj (gmul x y) = gmul (gcj x) (gcj y).
  Proof. destruct x, y; unfold gcj, gmul; cbn [fst snd]; f_equal; ring. Qed.
  Lemma gcj_opp x : gcj (gopp x) = gopp (gcj x).
  Proof. destruct x; unfold gcj, gopp; cbn [fst snd]; f_equal. Qed.
  Lemma gcj_cj x : gcj (gcj x) = x.
  Proof. destruct x; unfold gcj; cbn [fst snd]; f_equal; ring. Qed.
  Lemma gcj_1 : gcj g1 = g1.
  Proof. unfold gcj, g1; cbn [fst snd]; f_equal; ring. Qed.
End Gauss.

Definition GaussOver (B : StarRing) : StarRing :=
  mkStarRing (G B) (g0 B) (g1 B) (gadd B) (gmul B) (gsub B) (gopp B) (gcj B) (g_rth B)
             (gcj_add B) (gcj_mul B) (gcj_opp B) (gcj_cj B) (gcj_1 B).

Definition GZ : StarRing := GaussOver ZR.    (* Gaussian integers *)
Definition GQ : StarRing := GaussOver QR.    (* Gaussian rationals *)

Definition gi (B : StarRing) : GaussOver B := (r0 B, r1 B).   (* the imaginary unit *)

(* decidable equality on the executable instances (used only by the correspondence check) *)
Definition zr_eqb (x y : ZR) : bool := Z.eqb x y.
Definition gz_eqb (x y : GZ) : bool := Z.eqb (fst x) (fst y) && Z.eqb (snd x) (snd y).
Definition qr_eqb (x y : QR) : bool := Qeq_bool (this x) (this y).
Definition gq_eqb (x y : GQ) : bool := qr_eqb (fst x) (fst y) && qr_eqb (snd x) (snd y).

(* |x - y| <= tol, componentwise for complex numbers *)
Definition qr_close (tol : Q) (x y : QR) : bool := Qle_bool (Qabs (this x - this y)) tol.
Definition gq_close (tol : Q) (x y : GQ) : bool := qr_close tol (fst x) (fst y) && qr_close tol (snd x) (snd y).

Definition q2gq (re im : Q) : GQ := (Q2Qc re, Q2Qc im).
