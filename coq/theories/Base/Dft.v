(* Discrete Fourier transforms as index arithmetic.
   - list rotations: numpy.fft.fftshift / ifftshift ([rot k] = rotation to the left by k places),
     ifftshift o fftshift = id for every length, fftshift o fftshift = id for even lengths and
     = rotation by one place for odd lengths (hence <> id from length 3 on);
   - a ring with an L-th root of unity zeta (zeta^L = 1): integer powers [zpow], the defining sums
     [dsum s x k = sum_m x_m zeta^(s m k)] (s = +1: L*ifft, s = -1: fft), the specification [is_dft]
     that an oracle computes them, the executable reference [dft_list];
   - shifted output: [fftshift (O x)] at j is the sum with exponent  s m (j - L/2);
   - inversion under the orthogonality hypothesis  sum_k zeta^(a k) = 0 (a <> 0 mod L), and the total
     sum_k DFT(x)_k = L x_0. *)
From Coq Require Import ZArith List Arith Lia Bool ZifyNat.
From QV Require Import Base.Alg Base.Sums.
Import ListNotations.

Ltac Zify.zify_post_hook ::= Z.to_euclidean_division_equations.

(* ---------------------------------------------------------------------------------- *)
(*  rotations                                                                         *)
(* ---------------------------------------------------------------------------------- *)
Section Rot.
  Context {A : Type}.

  Definition rot (k : nat) (l : list A) : list A := skipn k l ++ firstn k l.
  (* numpy.fft.fftshift = roll by +n//2 = rotation to the left by n - n//2;  ifftshift = roll by -(n//2) *)
  Definition fftshift (l : list A) : list A := rot (length l - length l / 2) l.
  Definition ifftshift (l : list A) : list A := rot (length l / 2) l.

  Lemma rot_length k l : length (rot k l) = length l.
  Proof.
    unfold rot. rewrite app_length, skipn_length, firstn_length. lia.
  Qed.

  Lemma fftshift_length l : length (fftshift l) = length l.
  Proof. apply rot_length. Qed.
  Lemma ifftshift_length l : length (ifftshift l) = length l.
  Proof. apply rot_length. Qed.

  Lemma nth_rot k l i d : (k <= length l)%nat -> (i < length l)%nat ->
    nth i (rot k l) d = nth ((i + k) mod length l) l d.
  Proof.
    intros Hk Hi. unfold rot.
    pose proof (firstn_skipn k l) as Hl.
    pose proof (firstn_length_le l Hk) as Ha.
    pose proof (skipn_length k l) as Hb.
    set (a := firstn k l) in *. set (b := skipn k l) in *.
    assert (length l <> 0)%nat as Hn by lia.
    assert (forall j, nth j l d = nth j (a ++ b) d) as Hl' by (now rewrite Hl).
    destruct (Nat.lt_ge_cases i (length b)) as [Hlt|Hge].
    - rewrite app_nth1 by exact Hlt.
      rewrite Nat.mod_small by lia.
      rewrite Hl'. rewrite app_nth2 by lia. f_equal. lia.
    - rewrite app_nth2 by lia.
      replace ((i + k) mod length l)%nat with (i + k - length l)%nat.
      + rewrite Hl'. rewrite app_nth1 by lia. f_equal. lia.
      + replace (i + k)%nat with ((i + k - length l) + 1 * length l)%nat at 2 by lia.
        rewrite Nat.mod_add by exact Hn. symmetry. apply Nat.mod_small. lia.
  Qed.

  Lemma half_le n : (n / 2 <= n)%nat.
  Proof. lia. Qed.

  Lemma nth_fftshift l i d : (i < length l)%nat ->
    nth i (fftshift l) d = nth ((i + (length l - length l / 2)) mod length l) l d.
  Proof. intros Hi. unfold fftshift. apply nth_rot; [lia|exact Hi]. Qed.

  Lemma nth_ifftshift l i d : (i < length l)%nat ->
    nth i (ifftshift l) d = nth ((i + length l / 2) mod length l) l d.
  Proof. intros Hi. unfold ifftshift. apply nth_rot; [apply half_le|exact Hi]. Qed.

  Lemma list_ext_nth (l l' : list A) : length l = length l' ->
    (forall i d, (i < length l)%nat -> nth i l d = nth i l' d) -> l = l'.
  Proof.
    intros Hlen H. destruct l as [|x l0].
    - destruct l'; [reflexivity|discriminate].
    - apply (nth_ext _ _ x x Hlen). intros n Hn. apply H. exact Hn.
  Qed.

  (* the two shifts are mutually inverse for EVERY length *)
  Lemma ifftshift_fftshift l : ifftshift (fftshift l) = l.
  Proof.
    apply list_ext_nth; [now rewrite ifftshift_length, fftshift_length|].
    intros i d Hi. rewrite ifftshift_length, fftshift_length in Hi.
    rewrite nth_ifftshift by (now rewrite fftshift_length).
    rewrite fftshift_length.
    assert (length l <> 0)%nat as Hn by lia.
    rewrite nth_fftshift by (apply Nat.mod_upper_bound; exact Hn).
    rewrite Nat.add_mod_idemp_l by exact Hn.
    f_equal.
    replace (i + length l / 2 + (length l - length l / 2))%nat with (i + 1 * length l)%nat by lia.
    rewrite Nat.mod_add by exact Hn. apply Nat.mod_small. exact Hi.
  Qed.

  Lemma fftshift_ifftshift l : fftshift (ifftshift l) = l.
  Proof.
    apply list_ext_nth; [now rewrite fftshift_length, ifftshift_length|].
    intros i d Hi. rewrite fftshift_length, ifftshift_length in Hi.
    rewrite nth_fftshift by (now rewrite ifftshift_length).
    rewrite ifftshift_length.
    assert (length l <> 0)%nat as Hn by lia.
    rewrite nth_ifftshift by (apply Nat.mod_upper_bound; exact Hn).
    rewrite Nat.add_mod_idemp_l by exact Hn.
    f_equal.
    replace (i + (length l - length l / 2) + length l / 2)%nat with (i + 1 * length l)%nat by lia.
    rewrite Nat.mod_add by exact Hn. apply Nat.mod_small. exact Hi.
  Qed.

  (* for even lengths the two shifts are the same rotation *)
  Lemma fftshift_even l : Nat.even (length l) = true -> fftshift l = ifftshift l.
  Proof.
    intros He. unfold fftshift, ifftshift. f_equal.
    apply Nat.even_spec in He. destruct He as [m Hm]. rewrite Hm. lia.
  Qed.

  Lemma fftshift_fftshift_even l : Nat.even (length l) = true -> fftshift (fftshift l) = l.
  Proof.
    intros He. rewrite (fftshift_even (fftshift l)) by (now rewrite fftshift_length).
    apply ifftshift_fftshift.
  Qed.

  (* for odd lengths applying fftshift twice rotates by one place *)
  Lemma fftshift_fftshift_odd l : Nat.odd (length l) = true -> fftshift (fftshift l) = rot 1 l.
  Proof.
    intros Ho. apply Nat.odd_spec in Ho. destruct Ho as [m Hm].
    apply list_ext_nth; [now rewrite fftshift_length, fftshift_length, rot_length|].
    intros i d Hi. rewrite !fftshift_length in Hi.
    assert (length l <> 0)%nat as Hn by lia.
    rewrite nth_fftshift by (now rewrite fftshift_length).
    rewrite fftshift_length.
    rewrite nth_fftshift by (apply Nat.mod_upper_bound; exact Hn).
    rewrite Nat.add_mod_idemp_l by exact Hn.
    rewrite nth_rot by lia. f_equal.
    replace (i + (length l - length l / 2) + (length l - length l / 2))%nat
      with ((i + 1) + 1 * length l)%nat by lia.
    now rewrite Nat.mod_add by exact Hn.
  Qed.
End Rot.

Lemma rot_map {A B} (f : A -> B) k l : rot k (map f l) = map f (rot k l).
Proof. unfold rot. now rewrite skipn_map, firstn_map, map_app. Qed.

Lemma fftshift_map {A B} (f : A -> B) l : fftshift (map f l) = map f (fftshift l).
Proof. unfold fftshift. rewrite map_length. apply rot_map. Qed.
Lemma ifftshift_map {A B} (f : A -> B) l : ifftshift (map f l) = map f (ifftshift l).
Proof. unfold ifftshift. rewrite map_length. apply rot_map. Qed.

(* applying fftshift twice is NOT the identity for any odd length >= 3 (witness: 0, 1, ..., n-1) *)
Lemma fftshift_fftshift_odd_neq n : Nat.odd n = true -> (3 <= n)%nat ->
  fftshift (fftshift (seq 0 n)) <> seq 0 n.
Proof.
  intros Ho Hn H.
  rewrite fftshift_fftshift_odd in H by (now rewrite seq_length).
  assert (nth 0 (rot 1 (seq 0 n)) 0%nat = nth 0 (seq 0 n) 0%nat) as E by now rewrite H.
  rewrite nth_rot in E by (rewrite seq_length; lia).
  rewrite seq_length in E.
  rewrite Nat.mod_small in E by lia.
  rewrite !seq_nth in E by lia. discriminate.
Qed.

(* ---------------------------------------------------------------------------------- *)
(*  powers and a few more facts on finite sums                                        *)
(* ---------------------------------------------------------------------------------- *)
Section Pow.
  Context {R : StarRing}.
  Add Ring Rr : (rth R).
  Open Scope sr_scope.

  Fixpoint pow (x : R) (n : nat) : R := match n with O => 1 | S k => x * pow x k end.

  Lemma pow_add x a b : pow x (a + b) = pow x a * pow x b.
  Proof. induction a as [|a IH]; cbn [pow Nat.add]; [ring|rewrite IH; ring]. Qed.

  Lemma pow_one n : pow 1 n = 1.
  Proof. induction n as [|n IH]; cbn [pow]; [reflexivity|rewrite IH; ring]. Qed.

  Lemma pow_mul x a b : pow x (a * b) = pow (pow x a) b.
  Proof.
    induction b as [|b IH].
    - rewrite Nat.mul_0_r. reflexivity.
    - rewrite Nat.mul_succ_r, pow_add, IH. cbn [pow]. ring.
  Qed.

  Lemma cj_pow x n : cj R (pow x n) = pow (cj R x) n.
  Proof. induction n as [|n IH]; cbn [pow]; [apply cj_1|now rewrite cj_mul, IH]. Qed.

  (* the natural number n as a ring element *)
  Fixpoint natR (n : nat) : R := match n with O => 0 | S k => natR k + 1 end.

  Lemma sum_const n c : sum n (fun _ => c) = natR n * c.
  Proof. induction n as [|n IH]; cbn [sum natR]; [ring|rewrite IH; ring]. Qed.

  Lemma sum_split a b (f : nat -> R) : sum (a + b) f = sum a f + sum b (fun i => f (a + i)%nat).
  Proof.
    induction b as [|b IH].
    - rewrite Nat.add_0_r. cbn [sum]. ring.
    - rewrite Nat.add_succ_r. cbn [sum]. rewrite IH. ring.
  Qed.

  Lemma sum_rev n (f : nat -> R) : sum n f = sum n (fun i => f (n - 1 - i)%nat).
  Proof.
    induction n as [|n IH]; [reflexivity|].
    rewrite (sum_S_first n (fun i => f (S n - 1 - i)%nat)). cbn [sum]. rewrite IH.
    replace (S n - 1 - 0)%nat with n by lia.
    rewrite (sum_ext n (fun i => f (S n - 1 - S i)%nat) (fun i => f (n - 1 - i)%nat))
      by (intros i Hi; f_equal; lia).
    ring.
  Qed.

  (* summing over a rotated index range *)
  Lemma sum_rot_reindex' a h (g : nat -> R) :
    sum (a + h) (fun m => g ((m + h) mod (a + h))%nat) = sum (a + h) g.
  Proof.
    rewrite sum_split.
    rewrite (sum_ext a (fun m => g ((m + h) mod (a + h))%nat) (fun m => g (h + m)%nat))
      by (intros m Hm; f_equal; rewrite Nat.mod_small; lia).
    rewrite (sum_ext h (fun i => g ((a + i + h) mod (a + h))%nat) g).
    - replace (sum (a + h) g) with (sum (h + a) g) by (f_equal; lia).
      rewrite (sum_split h a g). ring.
    - intros i Hi. f_equal.
      replace (a + i + h)%nat with (i + 1 * (a + h))%nat by lia.
      rewrite Nat.mod_add by lia. apply Nat.mod_small. lia.
  Qed.

  Lemma sum_rot_reindex L h (g : nat -> R) : (h <= L)%nat ->
    sum L (fun m => g ((m + h) mod L)%nat) = sum L g.
  Proof.
    intros Hh. replace L with ((L - h) + h)%nat by lia. apply sum_rot_reindex'.
  Qed.

  Lemma nth_map_scale (c : R) l m : (m < length l)%nat -> nth m (map (rmul R c) l) 0 = c * nth m l 0.
  Proof.
    intros Hm. rewrite (nth_indep (map (rmul R c) l) 0 (c * 0)) by (now rewrite map_length).
    apply (map_nth (rmul R c)).
  Qed.
End Pow.

(* ---------------------------------------------------------------------------------- *)
(*  the discrete Fourier transform of length L over a ring with zeta, zeta^L = 1      *)
(* ---------------------------------------------------------------------------------- *)
Section Dft.
  Context {R : StarRing}.
  Add Ring Rr' : (rth R).
  Open Scope sr_scope.
  Variable L : nat.
  Hypothesis Lpos : L <> 0%nat.
  Variable zeta : R.
  Hypothesis zeta_L : pow zeta L = 1.

  Let LZ : Z.of_nat L <> 0%Z.
  Proof. lia. Qed.

  (* zeta^k for an integer k (reduced modulo L) *)
  Definition zpow (k : Z) : R := pow zeta (Z.to_nat (k mod Z.of_nat L)).

  Lemma pow_zeta_mod_nat n : pow zeta (n mod L) = pow zeta n.
  Proof.
    rewrite (Nat.div_mod n L Lpos) at 2.
    rewrite pow_add, pow_mul, zeta_L, pow_one. ring.
  Qed.

  Lemma pow_zeta_mod (x : Z) : (0 <= x)%Z -> pow zeta (Z.to_nat (x mod Z.of_nat L)) = pow zeta (Z.to_nat x).
  Proof.
    intros Hx. rewrite Z2Nat.inj_mod by lia. rewrite Nat2Z.id. apply pow_zeta_mod_nat.
  Qed.

  Lemma zpow_add a b : zpow (a + b) = zpow a * zpow b.
  Proof.
    unfold zpow. rewrite <- pow_add.
    pose proof (Z.mod_pos_bound a (Z.of_nat L)) as Ha.
    pose proof (Z.mod_pos_bound b (Z.of_nat L)) as Hb.
    rewrite <- Z2Nat.inj_add by lia.
    rewrite Zplus_mod. apply pow_zeta_mod. lia.
  Qed.

  Lemma zpow_0 : zpow 0 = 1.
  Proof. unfold zpow. rewrite Z.mod_0_l by exact LZ. reflexivity. Qed.

  Lemma zpow_congr a b : (a mod Z.of_nat L = b mod Z.of_nat L)%Z -> zpow a = zpow b.
  Proof. unfold zpow. now intros ->. Qed.

  Lemma zpow_inv a : zpow a * zpow (- a) = 1.
  Proof. rewrite <- zpow_add. replace (a + - a)%Z with 0%Z by ring. apply zpow_0. Qed.

  Lemma zpow_mul_congr c a b : (a mod Z.of_nat L = b mod Z.of_nat L)%Z -> zpow (c * a) = zpow (c * b).
  Proof.
    intros H. apply zpow_congr.
    rewrite <- (Z.mul_mod_idemp_r c a) by exact LZ. rewrite H. apply Z.mul_mod_idemp_r. exact LZ.
  Qed.

  Lemma zpow_nat n : zpow (Z.of_nat n) = pow zeta n.
  Proof. unfold zpow. rewrite pow_zeta_mod by lia. now rewrite Nat2Z.id. Qed.

  (* the defining sums:  s = 1: L * ifft(x)_k,  s = -1: fft(x)_k *)
  Definition dsum (s : Z) (x : list R) (k : nat) : R :=
    sum L (fun m => nth m x 0 * zpow (s * Z.of_nat m * Z.of_nat k)).

  (* what is assumed of an FFT routine (an oracle): it computes the defining sums *)
  Definition is_dft (s : Z) (O : list R -> list R) : Prop :=
    forall x, length x = L -> length (O x) = L /\ forall k, (k < L)%nat -> nth k (O x) 0 = dsum s x k.

  (* executable reference *)
  Definition dft_list (s : Z) (x : list R) : list R := map (dsum s x) (seq 0 L).

  Lemma dft_list_is_dft s : is_dft s (dft_list s).
  Proof.
    intros x Hx. unfold dft_list. split; [now rewrite map_length, seq_length|].
    intros k Hk.
    rewrite (nth_indep _ 0 (dsum s x 0%nat)) by (now rewrite map_length, seq_length).
    rewrite (map_nth (dsum s x)). now rewrite seq_nth by exact Hk.
  Qed.

  (* output shifted to the centre: entry j belongs to the index frequency j - L/2 *)
  Lemma nth_fftshift_dft s O x j : is_dft s O -> length x = L -> (j < L)%nat ->
    nth j (fftshift (O x)) 0 =
    sum L (fun m => nth m x 0 * zpow (s * Z.of_nat m * (Z.of_nat j - Z.of_nat (L / 2)))).
  Proof.
    intros HO Hx Hj. destruct (HO x Hx) as [Hlen Hval].
    rewrite nth_fftshift by (now rewrite Hlen). rewrite Hlen.
    rewrite Hval by (apply Nat.mod_upper_bound; exact Lpos).
    unfold dsum. apply sum_ext. intros m Hm. f_equal. apply zpow_mul_congr.
    rewrite Nat2Z.inj_mod, Z.mod_mod by exact LZ.
    replace (Z.of_nat (j + (L - L / 2))) with ((Z.of_nat j - Z.of_nat (L / 2)) + 1 * Z.of_nat L)%Z by lia.
    apply Z_mod_plus_full.
  Qed.

  Lemma mod_nonzero_small (d : Z) : (d <> 0)%Z -> (- Z.of_nat L < d < Z.of_nat L)%Z -> (d mod Z.of_nat L <> 0)%Z.
  Proof.
    intros Hd Hb H. apply Z.mod_divide in H; [|exact LZ].
    destruct (Z_lt_le_dec 0 d) as [Hp|Hn].
    - apply Z.divide_pos_le in H; lia.
    - apply Z.divide_opp_r in H. apply Z.divide_pos_le in H; lia.
  Qed.

  (* ---- inversion, under orthogonality of the powers of zeta ---- *)
  Section Orth.
    Hypothesis orth : forall a : Z, (a mod Z.of_nat L <> 0)%Z -> sum L (fun k => zpow (a * Z.of_nat k)) = 0.

    Lemma geom_zero_mod a : (a mod Z.of_nat L = 0)%Z -> sum L (fun k => zpow (a * Z.of_nat k)) = natR L.
    Proof.
      intros Ha. rewrite (sum_ext L _ (fun _ => 1)).
      - rewrite sum_const. ring.
      - intros k _. rewrite <- zpow_0. apply zpow_congr.
        rewrite <- Z.mul_mod_idemp_l by exact LZ. rewrite Ha. reflexivity.
    Qed.

    Lemma geom_sum s (n k : nat) : (s = 1 \/ s = -1)%Z -> (n < L)%nat -> (k < L)%nat ->
      sum L (fun m => zpow (s * (Z.of_nat n - Z.of_nat k) * Z.of_nat m)) = if Nat.eqb n k then natR L else 0.
    Proof.
      intros Hs Hn Hk. destruct (Nat.eqb_spec n k) as [->|Hne].
      - apply geom_zero_mod. replace (s * (Z.of_nat k - Z.of_nat k))%Z with 0%Z by ring.
        apply Z.mod_0_l. exact LZ.
      - apply orth. apply mod_nonzero_small; destruct Hs as [-> | ->]; lia.
    Qed.

    (* fft after scaling by c after L ifft = c L id, and the same with the roles exchanged *)
    Lemma dft_inverse s c O1 O2 x k : (s = 1 \/ s = -1)%Z -> is_dft s O1 -> is_dft (- s) O2 ->
      length x = L -> (k < L)%nat ->
      nth k (O2 (map (rmul R c) (O1 x))) 0 = c * natR L * nth k x 0.
    Proof.
      intros Hs H1 H2 Hx Hk. destruct (H1 x Hx) as [Hl1 Hv1].
      assert (length (map (rmul R c) (O1 x)) = L) as Hy by (now rewrite map_length).
      destruct (H2 _ Hy) as [_ Hv2]. rewrite Hv2 by exact Hk. unfold dsum at 1.
      rewrite (sum_ext L _ (fun m => c * sum L (fun n => nth n x 0 *
                 zpow (s * (Z.of_nat n - Z.of_nat k) * Z.of_nat m)))).
      - rewrite sum_mul_l, sum_swap.
        rewrite (sum_ext L _ (fun n => nth n x 0 * (if Nat.eqb n k then natR L else 0))).
        + rewrite (sum_single L k) by (try exact Hk; intros i Hi Hne;
            apply Nat.eqb_neq in Hne; rewrite Hne; ring).
          rewrite Nat.eqb_refl. ring.
        + intros n Hn. rewrite sum_mul_l. f_equal. apply geom_sum; assumption.
      - intros m Hm. rewrite nth_map_scale by (now rewrite Hl1). rewrite Hv1 by exact Hm.
        unfold dsum.
        match goal with |- ?c0 * ?S0 * ?z0 = _ => replace (c0 * S0 * z0) with (c0 * (S0 * z0)) by ring end.
        rewrite <- sum_mul_r. f_equal.
        apply sum_ext. intros n Hn.
        replace (zpow (s * (Z.of_nat n - Z.of_nat k) * Z.of_nat m))
          with (zpow (s * Z.of_nat n * Z.of_nat m) * zpow (- s * Z.of_nat m * Z.of_nat k)).
        + ring.
        + rewrite <- zpow_add. f_equal. ring.
    Qed.

    (* sum of all output points = L * first input point *)
    Lemma dsum_total s x : (s = 1 \/ s = -1)%Z -> sum L (fun k => dsum s x k) = natR L * nth 0 x 0.
    Proof.
      intros Hs. unfold dsum. rewrite sum_swap.
      rewrite (sum_ext L _ (fun m => nth m x 0 * (if Nat.eqb m 0 then natR L else 0))).
      - assert (0 < L)%nat as H0 by lia.
        rewrite (sum_single L 0%nat) by (try exact H0; intros i Hi Hne;
            apply Nat.eqb_neq in Hne; rewrite Hne; ring).
        cbn [Nat.eqb]. ring.
      - intros m Hm. rewrite sum_mul_l. f_equal.
        rewrite <- (geom_sum s m 0%nat Hs Hm) by lia.
        apply sum_ext. intros k _. f_equal. cbn [Z.of_nat]. ring.
    Qed.
  End Orth.
End Dft.

(* ---------------------------------------------------------------------------------- *)
(*  Eisenstein numbers  a + b w,  w^2 + w + 1 = 0,  over a base ring: rings with primitive 3rd and   *)
(*  6th roots of unity (witnesses at odd lengths; Z[i] only has the roots of orders 1, 2, 4).        *)
(*  As for GaussOver the conjugation acts on w only (base rings with trivial conjugation: Z, Qc).     *)
(* ---------------------------------------------------------------------------------- *)
Section Eis.
  Variable B : StarRing.
  Add Ring Bre : (rth B).
  Open Scope sr_scope.
  Definition E := (car B * car B)%type.
  Definition e_add (x y : E) : E := (fst x + fst y, snd x + snd y).
  Definition e_mul (x y : E) : E :=
    (fst x * fst y - snd x * snd y, fst x * snd y + snd x * fst y - snd x * snd y).
  Definition e_sub (x y : E) : E := (fst x - fst y, snd x - snd y).
  Definition e_opp (x : E) : E := (- fst x, - snd x).
  Definition e_cj (x : E) : E := (fst x - snd x, - snd x).

  Lemma e_rth : ring_theory ((0, 0) : E) (1, 0) e_add e_mul e_sub e_opp (@eq E).
  Proof.
    constructor; intros; repeat match goal with x : E |- _ => destruct x end;
      unfold e_add, e_mul, e_sub, e_opp; cbn [fst snd]; f_equal; ring.
  Qed.
  Lemma e_cj_add x y : e_cj (e_add x y) = e_add (e_cj x) (e_cj y).
  Proof. destruct x, y; unfold e_cj, e_add; cbn [fst snd]; f_equal; ring. Qed.
  Lemma e_cj_mul x y : e_cj (e_mul x y) = e_mul (e_cj x) (e_cj y).
  Proof. destruct x, y; unfold e_cj, e_mul; cbn [fst snd]; f_equal; ring. Qed.
  Lemma e_cj_opp x : e_cj (e_opp x) = e_opp (e_cj x).
  Proof. destruct x; unfold e_cj, e_opp; cbn [fst snd]; f_equal; ring. Qed.
  Lemma e_cj_cj x : e_cj (e_cj x) = x.
  Proof. destruct x; unfold e_cj; cbn [fst snd]; f_equal; ring. Qed.
  Lemma e_cj_1 : e_cj (1, 0) = (1, 0).
  Proof. unfold e_cj; cbn [fst snd]; f_equal; ring. Qed.
End Eis.

Definition EisOver (B : StarRing) : StarRing :=
  mkStarRing (E B) (r0 B, r0 B) (r1 B, r0 B) (e_add B) (e_mul B) (e_sub B) (e_opp B) (e_cj B) (e_rth B)
             (e_cj_add B) (e_cj_mul B) (e_cj_opp B) (e_cj_cj B) (e_cj_1 B).
Definition EZ : StarRing := EisOver ZR.
Definition EQ : StarRing := EisOver QR.
Definition e_w (B : StarRing) : EisOver B := (r0 B, r1 B).       (* primitive 3rd root of unity *)
