(* A group G acting on a carrier X from the right:  act (g h) x = act h (act g x),
   as  transform(S): x -> S^-1 x S  composes. Consequences used by the basis-management proofs. *)
Section Group.
  Variables G X : Type.
  Variable gid : G.
  Variable gmul : G -> G -> G.
  Variable ginv : G -> G.
  Variable act : G -> X -> X.
  Hypothesis gmul_assoc : forall a b c, gmul a (gmul b c) = gmul (gmul a b) c.
  Hypothesis gid_l : forall a, gmul gid a = a.
  Hypothesis gid_r : forall a, gmul a gid = a.
  Hypothesis ginv_r : forall a, gmul a (ginv a) = gid.
  Hypothesis ginv_l : forall a, gmul (ginv a) a = gid.
  Hypothesis act_id : forall x, act gid x = x.
  Hypothesis act_mul : forall g h x, act (gmul g h) x = act h (act g x).

  Lemma gmul_cancel_l a b c : gmul a b = gmul a c -> b = c.
  Proof. intros H. rewrite <- (gid_l b), <- (gid_l c), <- (ginv_l a), <- !gmul_assoc, H. reflexivity. Qed.

  Lemma ginv_mul a b : ginv (gmul a b) = gmul (ginv b) (ginv a).
  Proof.
    apply (gmul_cancel_l (gmul a b)). rewrite ginv_r.
    rewrite gmul_assoc, <- (gmul_assoc a b (ginv b)), ginv_r, gid_r, ginv_r. reflexivity.
  Qed.

  Lemma act_inv_l g x : act (ginv g) (act g x) = x.
  Proof. rewrite <- act_mul, ginv_r. apply act_id. Qed.
  Lemma act_inv_r g x : act g (act (ginv g) x) = x.
  Proof. rewrite <- act_mul, ginv_l. apply act_id. Qed.

  (* transforming along h after being at g, read back from the composite *)
  Lemma act_back g h x : act (ginv (gmul g h)) (act h x) = act (ginv g) x.
  Proof. rewrite ginv_mul, act_mul, act_inv_l. reflexivity. Qed.
End Group.
