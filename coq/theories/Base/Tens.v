(* Four-index tensors (superoperators) as functions on indices below n: application to a matrix
   (numpy.tensordot over the last two indices), composition, the basis transformation performed by
   SuperOperator.transform / RelaxationTensor.transform (two passes of S1 . X . S), trace- and
   Hermiticity-preservation predicates. *)
From Coq Require Import Arith List Lia.
From QV Require Import Base.Alg Base.Sums Base.Mat.
Import ListNotations.

Section Tens.
  Context {R : StarRing}.
  Add Ring Rr : (rth R).
  Open Scope sr_scope.

  Definition tens := nat -> nat -> nat -> nat -> R.

  Definition tab4 (n : nat) (T : tens) : tens :=
    let l := map (fun a => map (fun b => map (fun c => map (T a b c) (seq 0 n)) (seq 0 n)) (seq 0 n)) (seq 0 n) in
    fun a b c d => nth d (nth c (nth b (nth a l []) []) []) 0.

  Definition tens_of (l : list (list (list (list R)))) : tens :=
    fun a b c d => nth d (nth c (nth b (nth a l []) []) []) 0.

  Definition teq (n : nat) (T U : tens) : Prop :=
    forall a b c d, (a < n)%nat -> (b < n)%nat -> (c < n)%nat -> (d < n)%nat -> T a b c d = U a b c d.

  (* numpy.tensordot(R, A) *)
  Definition tapply (n : nat) (T : tens) (A : @mat R) : @mat R :=
    fun a b => sum n (fun c => sum n (fun d => T a b c d * A c d)).

  (* numpy.tensordot(T, U): (T o U)[a,b,c,d] = sum_ef T[a,b,e,f] U[e,f,c,d] *)
  Definition tcomp (n : nat) (T U : tens) : tens :=
    fun a b c d => sum n (fun e => sum n (fun f => T a b e f * U e f c d)).

  (* the two passes of transform(SS, inv=S1) *)
  Definition tpass1 (n : nat) (S1 S : @mat R) (T : tens) : tens :=
    fun a b c d => sum n (fun i => sum n (fun j => S1 a i * T i j c d * S j b)).
  (* second pass, over the last two indices: S^T . X . (S^-1)^T  (the repaired code) *)
  Definition tpass2 (n : nat) (S1 S : @mat R) (T : tens) : tens :=
    fun a b c d => sum n (fun k => sum n (fun l => S k c * T a b k l * S1 d l)).
  Definition ttrans (n : nat) (S1 S : @mat R) (T : tens) : tens := tpass2 n S1 S (tpass1 n S1 S T).
  (* the pinned second pass S^-1 . X . S, right only for real orthogonal S *)
  Definition tpass2_pinned (n : nat) (S1 S : @mat R) (T : tens) : tens :=
    fun a b c d => sum n (fun k => sum n (fun l => S1 c k * T a b k l * S l d)).
  Definition ttrans_pinned (n : nat) (S1 S : @mat R) (T : tens) : tens := tpass2_pinned n S1 S (tpass1 n S1 S T).

  (* the transformation under which application is covariant for ANY invertible S *)
  Definition ttrans_gen (n : nat) (S1 S : @mat R) (T : tens) : tens :=
    fun a b c d => sum n (fun i => sum n (fun j => sum n (fun k => sum n (fun l =>
      S1 a i * S j b * T i j k l * S k c * S1 d l)))).

  (* similarity transformation of operators: S1 . A . S *)
  Definition sim (n : nat) (S1 S : @mat R) (A : @mat R) : @mat R := mmul n S1 (mmul n A S).

  Definition trace_pres (n : nat) (T : tens) : Prop :=
    forall c d, (c < n)%nat -> (d < n)%nat -> sum n (fun a => T a a c d) = 0.
  Definition herm_pres (n : nat) (T : tens) : Prop :=
    forall a b c d, (a < n)%nat -> (b < n)%nat -> (c < n)%nat -> (d < n)%nat -> cj R (T a b c d) = T b a d c.
End Tens.
