(* Vectors and matrices as functions on indices, read only below the dimension n.
   [tab] materialises a function into a list so that iterated executable models do not
   re-evaluate nested closures (it is the identity on indices < n). *)
From Coq Require Import Arith List Lia.
From QV Require Import Base.Alg Base.Sums.
Import ListNotations.

Section Mat.
  Context {R : StarRing}.
  Add Ring Rr : (rth R).
  Open Scope sr_scope.

  Definition vec := nat -> R.
  Definition mat := nat -> nat -> R.

  Definition tab (n : nat) (f : vec) : vec :=
    let l := map f (seq 0 n) in fun i => nth i l 0.

  Lemma tab_spec n f i : (i < n)%nat -> tab n f i = f i.
  Proof.
    intros Hi. unfold tab. rewrite (nth_indep _ 0 (f 0%nat)) by (rewrite map_length, seq_length; exact Hi).
    rewrite map_nth, seq_nth by exact Hi. reflexivity.
  Qed.

  Definition tab2 (n m : nat) (f : mat) : mat :=
    let l := map (fun i => map (f i) (seq 0 m)) (seq 0 n) in fun i j => nth j (nth i l []) 0.

  Lemma tab2_spec n m f i j : (i < n)%nat -> (j < m)%nat -> tab2 n m f i j = f i j.
  Proof.
    intros Hi Hj. unfold tab2.
    rewrite (nth_indep _ [] (map (f 0%nat) (seq 0 m))) by (rewrite map_length, seq_length; exact Hi).
    rewrite (map_nth (fun i0 => map (f i0) (seq 0 m))), seq_nth by exact Hi. cbn [Nat.add].
    rewrite (nth_indep _ 0 (f i 0%nat)) by (rewrite map_length, seq_length; exact Hj).
    rewrite map_nth, seq_nth by exact Hj. reflexivity.
  Qed.

  (* reading literals written by the harness *)
  Definition vec_of (l : list R) : vec := fun i => nth i l 0.
  Definition mat_of (l : list (list R)) : mat := fun i j => nth j (nth i l []) 0.

  Definition mv (n : nat) (A : mat) (v : vec) : vec := fun i => sum n (fun j => A i j * v j).
  Definition mmul (n : nat) (A B : mat) : mat := fun i j => sum n (fun k => A i k * B k j).
  Definition mid : mat := fun i j => delta i j.
  Definition mtr (n : nat) (A : mat) : R := sum n (fun i => A i i).
  Definition mT (A : mat) : mat := fun i j => A j i.
  Definition mdag (A : mat) : mat := fun i j => cj R (A j i).
  Definition madd (A B : mat) : mat := fun i j => A i j + B i j.
  Definition msub (A B : mat) : mat := fun i j => A i j - B i j.
  Definition mscale (c : R) (A : mat) : mat := fun i j => c * A i j.
  Definition colsum (n : nat) (A : mat) (j : nat) : R := sum n (fun i => A i j).

  (* pointwise equality below n *)
  Definition veq (n : nat) (u v : vec) : Prop := forall i, (i < n)%nat -> u i = v i.
  Definition meq (n : nat) (A B : mat) : Prop := forall i j, (i < n)%nat -> (j < n)%nat -> A i j = B i j.

  Lemma mv_ext n A B u v : meq n A B -> veq n u v -> veq n (mv n A u) (mv n B v).
  Proof. intros HA Hv i Hi. unfold mv. apply sum_ext. intros j Hj. now rewrite HA, Hv. Qed.

  Lemma mmul_ext n A A' B B' : meq n A A' -> meq n B B' -> meq n (mmul n A B) (mmul n A' B').
  Proof. intros HA HB i j Hi Hj. unfold mmul. apply sum_ext. intros k Hk. now rewrite HA, HB. Qed.

  Lemma mmul_assoc n A B C : meq n (mmul n (mmul n A B) C) (mmul n A (mmul n B C)).
  Proof.
    intros i j Hi Hj. unfold mmul.
    rewrite (sum_ext n _ (fun k => sum n (fun l => A i l * B l k * C k j))) by (intros; now rewrite sum_mul_r).
    rewrite sum_swap. apply sum_ext. intros l Hl. rewrite <- sum_mul_l. apply sum_ext. intros; ring.
  Qed.

  Lemma mmul_id_l n A : meq n (mmul n mid A) A.
  Proof. intros i j Hi Hj. unfold mmul, mid. now rewrite (sum_delta_l n i (fun k => A k j)). Qed.

  Lemma mmul_id_r n A : meq n (mmul n A mid) A.
  Proof. intros i j Hi Hj. unfold mmul, mid. now rewrite (sum_delta_r n j (fun k => A i k)). Qed.

  Lemma mtr_mmul_comm n A B : mtr n (mmul n A B) = mtr n (mmul n B A).
  Proof.
    unfold mtr, mmul. rewrite sum_swap. apply sum_ext. intros i Hi. apply sum_ext. intros; ring.
  Qed.

  (* the sum of all entries of A v is the column-sum-weighted sum of v *)
  Lemma sum_mv n A v : sum n (mv n A v) = sum n (fun j => colsum n A j * v j).
  Proof.
    unfold mv, colsum. rewrite sum_swap. apply sum_ext. intros j Hj. now rewrite sum_mul_r.
  Qed.

  (* ---- trace ---- *)
  Lemma mtr_ext n A B : meq n A B -> mtr n A = mtr n B.
  Proof. intros H. unfold mtr. apply sum_ext. intros i Hi. now apply H. Qed.
  Lemma mtr_madd n A B : mtr n (madd A B) = mtr n A + mtr n B.
  Proof. unfold mtr, madd. apply sum_add. Qed.
  Lemma mtr_msub n A B : mtr n (msub A B) = mtr n A - mtr n B.
  Proof. unfold mtr, msub. apply sum_sub. Qed.
  Lemma mtr_mscale n c A : mtr n (mscale c A) = c * mtr n A.
  Proof. unfold mtr, mscale. apply sum_mul_l. Qed.
  Lemma mtr_zero n : mtr n (fun _ _ => 0) = 0.
  Proof. unfold mtr. apply sum_0. Qed.
  Lemma mtr_comm0 n A B : mtr n (msub (mmul n A B) (mmul n B A)) = 0.
  Proof. rewrite mtr_msub, (mtr_mmul_comm n A B). ring. Qed.

  (* ---- Hermitian conjugation ---- *)
  Definition herm (n : nat) (A : mat) : Prop := forall i j, (i < n)%nat -> (j < n)%nat -> cj R (A j i) = A i j.

  Lemma mdag_mmul n A B i j : mdag (mmul n A B) i j = mmul n (mdag B) (mdag A) i j.
  Proof. unfold mdag, mmul. rewrite sum_cj. apply sum_ext. intros k _. rewrite cj_mul. ring. Qed.

  Lemma herm_madd n A B : herm n A -> herm n B -> herm n (madd A B).
  Proof. intros HA HB i j Hi Hj. unfold madd. now rewrite cj_add, HA, HB. Qed.
  Lemma herm_msub n A B : herm n A -> herm n B -> herm n (msub A B).
  Proof. intros HA HB i j Hi Hj. unfold msub. now rewrite cj_sub, HA, HB. Qed.
  Lemma herm_mscale n c A : is_real R c -> herm n A -> herm n (mscale c A).
  Proof. intros Hc HA i j Hi Hj. unfold mscale. now rewrite cj_mul, Hc, HA. Qed.
  Lemma herm_zero n : herm n (fun _ _ => 0).
  Proof. intros i j _ _. apply cj_0. Qed.

  Lemma herm_mmul_swap n A B : herm n A -> herm n B ->
    forall i j, (i < n)%nat -> (j < n)%nat -> cj R (mmul n A B j i) = mmul n B A i j.
  Proof.
    intros HA HB i j Hi Hj. change (cj R (mmul n A B j i)) with (mdag (mmul n A B) i j). rewrite mdag_mmul.
    unfold mmul, mdag. apply sum_ext. intros k Hk. now rewrite HA, HB.
  Qed.

  (* anticommutator of Hermitian matrices is Hermitian; i times the commutator is Hermitian *)
  Lemma herm_acomm n A B : herm n A -> herm n B -> herm n (madd (mmul n A B) (mmul n B A)).
  Proof.
    intros HA HB i j Hi Hj. unfold madd. rewrite cj_add, (herm_mmul_swap n A B HA HB i j Hi Hj), (herm_mmul_swap n B A HB HA i j Hi Hj). ring.
  Qed.
  Lemma herm_icomm n (im : R) A B : cj R im = - im -> herm n A -> herm n B ->
    herm n (mscale im (msub (mmul n A B) (mmul n B A))).
  Proof.
    intros Him HA HB i j Hi Hj. unfold mscale, msub.
    rewrite cj_mul, cj_sub, Him, (herm_mmul_swap n A B HA HB i j Hi Hj), (herm_mmul_swap n B A HB HA i j Hi Hj). ring.
  Qed.
End Mat.

