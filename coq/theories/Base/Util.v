(* small executable helpers shared by the correspondence cases *)
From Coq Require Import List Bool.
Import ListNotations.

Fixpoint all2 {A B} (f : A -> B -> bool) (l : list A) (m : list B) : bool :=
  match l, m with
  | [], [] => true
  | x :: l', y :: m' => f x y && all2 f l' m'
  | _, _ => false
  end.

Fixpoint bad_from {A} (f : A -> bool) (k : nat) (l : list A) : list nat :=
  match l with
  | [] => []
  | x :: l' => if f x then bad_from f (S k) l' else k :: bad_from f (S k) l'
  end.
(* indices of the cases on which [f] is false *)
Definition bad {A} (f : A -> bool) (l : list A) : list nat := bad_from f 0%nat l.
