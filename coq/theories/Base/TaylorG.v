(* The short-exponential loop with a generator that may change from one refined step to the next
   (time-dependent relaxation tensors: R = data[indxR] is re-read before every refined step) and a map
   applied after every refined step (pure dephasing: rho2 = rho2 * expo * exp(-t0*tt)):

     for each stored step:  for jj in range(Nref):
         for ll in 1..L:  rho1 = (dt/ll) * G_j(rho1) ;  rho2 = rho2 + rho1
         rho2 = D_j(rho2) ; rho1 = rho2 ;  j += 1

   Everything holds for every prefactor list (every order L and step), every Nref and number of steps.
   [tstep] of Base/Taylor.v is the inner loop. *)
From Coq Require Import List.
From QV Require Import Base.Taylor.
Import ListNotations.

Section TaylorG.
  Variable S V : Type.
  Variable vadd : V -> V -> V.
  Variable vscale : S -> V -> V.
  Variable G : nat -> V -> V.          (* generator used in refined step number j *)
  Variable D : nat -> V -> V.          (* applied after refined step number j *)

  Definition gstep (prefs : list S) (j : nat) (r : V) : V := D j (tstep vadd vscale (G j) prefs r).

  Fixpoint giter (k : nat) (prefs : list S) (j : nat) (r : V) : V :=
    match k with
    | O => r
    | Datatypes.S k' => giter k' prefs (Datatypes.S j) (gstep prefs j r)
    end.

  (* stored states: after 0, nref, 2 nref ... refined steps; j is the number of refined steps done so far *)
  Fixpoint gtraj (nsteps nref : nat) (prefs : list S) (j : nat) (r : V) : list V :=
    match nsteps with
    | O => [r]
    | Datatypes.S m => r :: gtraj m nref prefs (j + nref) (giter nref prefs j r)
    end.

  Lemma gtraj_length nsteps nref prefs j r : length (gtraj nsteps nref prefs j r) = Datatypes.S nsteps.
  Proof. revert j r; induction nsteps as [|m IH]; intros j r; cbn [gtraj length]; [reflexivity|]. now rewrite IH. Qed.

  (* --- predicates closed under the operations of the loop --- *)
  Section Closed.
    Variable P : V -> Prop.
    Variable Q : S -> Prop.
    Hypothesis P_add : forall x y, P x -> P y -> P (vadd x y).
    Hypothesis P_step : forall j c x, Q c -> P x -> P (vscale c (G j x)).
    Hypothesis P_D : forall j x, P x -> P (D j x).

    Lemma gstep_closed prefs j r : Forall Q prefs -> P r -> P (gstep prefs j r).
    Proof. intros HQ H. apply P_D. apply (tstep_closed S V vadd vscale (G j) P Q P_add (P_step j) prefs r HQ H). Qed.

    Lemma giter_closed k prefs j r : Forall Q prefs -> P r -> P (giter k prefs j r).
    Proof. revert j r; induction k as [|k IH]; intros j r HQ H; cbn [giter]; [exact H|]. apply IH; auto using gstep_closed. Qed.

    Lemma gtraj_closed nsteps nref prefs j r : Forall Q prefs -> P r -> Forall P (gtraj nsteps nref prefs j r).
    Proof.
      revert j r; induction nsteps as [|m IH]; intros j r HQ H; cbn [gtraj]; constructor; auto.
      apply IH; auto using giter_closed.
    Qed.
  End Closed.

  (* --- additive functionals annihilated by every scaled generator and kept by D are conserved --- *)
  Section Functional.
    Variable T : Type.
    Variable phi : V -> T.
    Variable tadd : T -> T -> T.
    Variable t0 : T.
    Hypothesis tadd_0_r : forall x, tadd x t0 = x.
    Hypothesis phi_add : forall x y, phi (vadd x y) = tadd (phi x) (phi y).
    Hypothesis phi_G : forall j c x, phi (vscale c (G j x)) = t0.
    Hypothesis phi_D : forall j x, phi (D j x) = phi x.

    Lemma gstep_functional prefs j r : phi (gstep prefs j r) = phi r.
    Proof.
      unfold gstep. rewrite phi_D.
      apply (tstep_functional S V vadd vscale (G j) T phi tadd t0 tadd_0_r phi_add (phi_G j)).
    Qed.
    Lemma giter_functional k prefs j r : phi (giter k prefs j r) = phi r.
    Proof. revert j r; induction k as [|k IH]; intros j r; cbn [giter]; [reflexivity|]. now rewrite IH, gstep_functional. Qed.
    Lemma gtraj_functional nsteps nref prefs j r : Forall (fun x => phi x = phi r) (gtraj nsteps nref prefs j r).
    Proof.
      revert j r; induction nsteps as [|m IH]; intros j r; cbn [gtraj]; constructor; auto.
      specialize (IH (j + nref) (giter nref prefs j r)). rewrite giter_functional in IH. exact IH.
    Qed.
  End Functional.
End TaylorG.

(* --- two runs whose ingredients are related stay related (same dynamics from equivalent generators;
       a run on materialised data against the run on functions; a linear image of a run) --- *)
Section Related.
  Variable S V W : Type.
  Variable vadd : V -> V -> V.
  Variable vscale : S -> V -> V.
  Variable G : nat -> V -> V.
  Variable D : nat -> V -> V.
  Variable wadd : W -> W -> W.
  Variable wscale : S -> W -> W.
  Variable G' : nat -> W -> W.
  Variable D' : nat -> W -> W.
  Variable E : V -> W -> Prop.
  Hypothesis E_add : forall x y x' y', E x x' -> E y y' -> E (vadd x y) (wadd x' y').
  Hypothesis E_step : forall j c x x', E x x' -> E (vscale c (G j x)) (wscale c (G' j x')).
  Hypothesis E_D : forall j x x', E x x' -> E (D j x) (D' j x').

  Lemma tloop_related j prefs r1 r2 r1' r2' : E r1 r1' -> E r2 r2' ->
    E (snd (tloop vadd vscale (G j) prefs r1 r2)) (snd (tloop wadd wscale (G' j) prefs r1' r2')).
  Proof.
    revert r1 r2 r1' r2'; induction prefs as [|c cs IH]; intros r1 r2 r1' r2' H1 H2; cbn [tloop snd]; [exact H2|].
    apply IH; [now apply E_step|]. apply E_add; [exact H2|now apply E_step].
  Qed.

  Lemma gstep_related prefs j r r' : E r r' -> E (gstep S V vadd vscale G D prefs j r) (gstep S W wadd wscale G' D' prefs j r').
  Proof. intros H. unfold gstep, tstep. apply E_D. now apply tloop_related. Qed.

  Lemma giter_related k prefs j r r' : E r r' ->
    E (giter S V vadd vscale G D k prefs j r) (giter S W wadd wscale G' D' k prefs j r').
  Proof. revert j r r'; induction k as [|k IH]; intros j r r' H; cbn [giter]; [exact H|]. apply IH. now apply gstep_related. Qed.

  Lemma gtraj_related nsteps nref prefs j r r' : E r r' ->
    Forall2 E (gtraj S V vadd vscale G D nsteps nref prefs j r) (gtraj S W wadd wscale G' D' nsteps nref prefs j r').
  Proof.
    revert j r r'; induction nsteps as [|m IH]; intros j r r' H; cbn [gtraj]; constructor; auto.
    apply IH. now apply giter_related.
  Qed.
End Related.

Arguments gstep {S V} vadd vscale G D prefs j r.
Arguments giter {S V} vadd vscale G D k prefs j r.
Arguments gtraj {S V} vadd vscale G D nsteps nref prefs j r.

(* the same with a side condition on the scalars the loop multiplies by (e.g. real prefactors) *)
Section RelatedQ.
  Variable S V W : Type.
  Variable vadd : V -> V -> V.
  Variable vscale : S -> V -> V.
  Variable G : nat -> V -> V.
  Variable D : nat -> V -> V.
  Variable wadd : W -> W -> W.
  Variable wscale : S -> W -> W.
  Variable G' : nat -> W -> W.
  Variable D' : nat -> W -> W.
  Variable E : V -> W -> Prop.
  Variable Q : S -> Prop.
  Hypothesis E_add : forall x y x' y', E x x' -> E y y' -> E (vadd x y) (wadd x' y').
  Hypothesis E_step : forall j c x x', Q c -> E x x' -> E (vscale c (G j x)) (wscale c (G' j x')).
  Hypothesis E_D : forall j x x', E x x' -> E (D j x) (D' j x').

  Lemma tloop_relatedQ j prefs r1 r2 r1' r2' : Forall Q prefs -> E r1 r1' -> E r2 r2' ->
    E (snd (tloop vadd vscale (G j) prefs r1 r2)) (snd (tloop wadd wscale (G' j) prefs r1' r2')).
  Proof.
    revert r1 r2 r1' r2'; induction prefs as [|c cs IH]; intros r1 r2 r1' r2' HQ H1 H2; cbn [tloop snd]; [exact H2|].
    inversion HQ as [|? ? Hc Hcs]; subst.
    apply IH; [exact Hcs|now apply E_step|]. apply E_add; [exact H2|now apply E_step].
  Qed.

  Lemma gstep_relatedQ prefs j r r' : Forall Q prefs -> E r r' ->
    E (gstep vadd vscale G D prefs j r) (gstep wadd wscale G' D' prefs j r').
  Proof. intros HQ H. unfold gstep, tstep. apply E_D. now apply tloop_relatedQ. Qed.

  Lemma giter_relatedQ k prefs j r r' : Forall Q prefs -> E r r' ->
    E (giter vadd vscale G D k prefs j r) (giter wadd wscale G' D' k prefs j r').
  Proof. revert j r r'; induction k as [|k IH]; intros j r r' HQ H; cbn [giter]; [exact H|]. apply IH; [exact HQ|]. now apply gstep_relatedQ. Qed.

  Lemma gtraj_relatedQ nsteps nref prefs j r r' : Forall Q prefs -> E r r' ->
    Forall2 E (gtraj vadd vscale G D nsteps nref prefs j r) (gtraj wadd wscale G' D' nsteps nref prefs j r').
  Proof.
    revert j r r'; induction nsteps as [|m IH]; intros j r r' HQ H; cbn [gtraj]; constructor; auto.
    apply IH; [exact HQ|]. now apply giter_relatedQ.
  Qed.
End RelatedQ.
