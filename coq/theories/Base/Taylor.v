(* The "short exponential" loop shared by the population, density-matrix, state-vector and
   hierarchy propagators of quantarhei:

       rho1 = rho ; rho2 = rho
       for ll in 1..L:   rho1 = (dt/ll) * G(rho1) ;  rho2 = rho2 + rho1
       rho  = rho2

   abstracted over the carrier V, the generator G and the list of prefactors [dt/1; ...; dt/L].
   Everything here holds for every prefactor list, hence for every order L and step dt. *)
From Coq Require Import List.
Import ListNotations.

Section Taylor.
  Variable S V : Type.
  Variable vadd : V -> V -> V.
  Variable vscale : S -> V -> V.
  Variable G : V -> V.

  Fixpoint tloop (prefs : list S) (r1 r2 : V) : V * V :=
    match prefs with
    | [] => (r1, r2)
    | c :: cs => let r1' := vscale c (G r1) in tloop cs r1' (vadd r2 r1')
    end.

  Definition tstep (prefs : list S) (r : V) : V := snd (tloop prefs r r).

  (* k refined steps *)
  Fixpoint titer (k : nat) (prefs : list S) (r : V) : V :=
    match k with
    | O => r
    | Datatypes.S k' => titer k' prefs (tstep prefs r)
    end.

  (* stored trajectory: the state after 0, nref, 2 nref, ... refined steps *)
  Fixpoint traj (nsteps nref : nat) (prefs : list S) (r : V) : list V :=
    match nsteps with
    | O => [r]
    | Datatypes.S m => r :: traj m nref prefs (titer nref prefs r)
    end.

  (* --- any predicate closed under the operations the loop performs is preserved --- *)
  Section Closed.
    Variable P : V -> Prop.
    Variable Q : S -> Prop.
    Hypothesis P_add : forall x y, P x -> P y -> P (vadd x y).
    Hypothesis P_step : forall c x, Q c -> P x -> P (vscale c (G x)).

    Lemma tloop_closed prefs r1 r2 : Forall Q prefs -> P r1 -> P r2 ->
      P (fst (tloop prefs r1 r2)) /\ P (snd (tloop prefs r1 r2)).
    Proof.
      revert r1 r2; induction prefs as [|c cs IH]; intros r1 r2 HQ H1 H2; cbn [tloop]; [now split|].
      inversion HQ as [|? ? Hc Hcs]; subst. apply IH; auto.
    Qed.

    Lemma tstep_closed prefs r : Forall Q prefs -> P r -> P (tstep prefs r).
    Proof. intros HQ H. apply (tloop_closed prefs r r HQ H H). Qed.

    Lemma titer_closed k prefs r : Forall Q prefs -> P r -> P (titer k prefs r).
    Proof. revert r; induction k as [|k IH]; intros r HQ H; cbn [titer]; [exact H|]. apply IH; auto using tstep_closed. Qed.

    Lemma traj_closed nsteps nref prefs r : Forall Q prefs -> P r -> Forall P (traj nsteps nref prefs r).
    Proof.
      revert r; induction nsteps as [|m IH]; intros r HQ H; cbn [traj]; constructor; auto.
      apply IH; auto using titer_closed.
    Qed.
  End Closed.

  (* --- a functional that is additive and vanishes on the range of every scaled G is conserved --- *)
  Section Functional.
    Variable T : Type.
    Variable phi : V -> T.
    Variable tadd : T -> T -> T.
    Variable t0 : T.
    Hypothesis tadd_0_r : forall x, tadd x t0 = x.
    Hypothesis phi_add : forall x y, phi (vadd x y) = tadd (phi x) (phi y).
    Hypothesis phi_G : forall c x, phi (vscale c (G x)) = t0.

    Lemma tloop_functional prefs r1 r2 : phi (snd (tloop prefs r1 r2)) = phi r2.
    Proof.
      revert r1 r2; induction prefs as [|c cs IH]; intros r1 r2; cbn [tloop]; [reflexivity|].
      rewrite IH, phi_add, phi_G. apply tadd_0_r.
    Qed.

    Lemma tstep_functional prefs r : phi (tstep prefs r) = phi r.
    Proof. apply tloop_functional. Qed.

    Lemma titer_functional k prefs r : phi (titer k prefs r) = phi r.
    Proof. revert r; induction k as [|k IH]; intros r; cbn [titer]; [reflexivity|]. now rewrite IH, tstep_functional. Qed.

    Lemma traj_functional nsteps nref prefs r : Forall (fun x => phi x = phi r) (traj nsteps nref prefs r).
    Proof.
      revert r; induction nsteps as [|m IH]; intros r; cbn [traj]; constructor; auto.
      specialize (IH (titer nref prefs r)). rewrite titer_functional in IH. exact IH.
    Qed.
  End Functional.

  (* a predicate preserved by whole steps (not necessarily by the intermediate terms) *)
  Lemma traj_step_closed (P : V -> Prop) nsteps nref prefs r :
    (forall x, P x -> P (tstep prefs x)) -> P r -> Forall P (traj nsteps nref prefs r).
  Proof.
    intros Hs. revert r; induction nsteps as [|m IH]; intros r H; cbn [traj]; constructor; auto.
    apply IH. clear IH. revert r H. induction nref as [|k IHk]; intros r H; cbn [titer]; auto.
  Qed.

  Lemma traj_length nsteps nref prefs r : length (traj nsteps nref prefs r) = Datatypes.S nsteps.
  Proof. revert r; induction nsteps as [|m IH]; intros r; cbn [traj length]; [reflexivity|]. now rewrite IH. Qed.

  Lemma traj_nth nsteps nref prefs r i d : i <= nsteps ->
    nth i (traj nsteps nref prefs r) d = Nat.iter i (titer nref prefs) r.
  Proof.
    revert r i; induction nsteps as [|m IH]; intros r i Hi.
    - assert (i = 0) as -> by (inversion Hi; reflexivity). reflexivity.
    - destruct i as [|i]; [reflexivity|]. cbn [traj nth]. rewrite IH by (apply le_S_n; exact Hi).
      clear. generalize (titer nref prefs) as f. intros f. revert r.
      induction i as [|i IHi]; intros r; [reflexivity|].
      change (Nat.iter (Datatypes.S i) f (f r)) with (f (Nat.iter i f (f r))). rewrite IHi. reflexivity.
  Qed.
End Taylor.

Arguments tloop {S V} vadd vscale G prefs r1 r2.
Arguments tstep {S V} vadd vscale G prefs r.
Arguments titer {S V} vadd vscale G k prefs r.
Arguments traj {S V} vadd vscale G nsteps nref prefs r.
