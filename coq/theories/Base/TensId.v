(* identity superoperator and matrix units *)
From Coq Require Import Arith Bool.
From QV Require Import Base.Alg Base.Sums Base.Mat Base.Tens.
Section TensId.
  Context {R : StarRing}.
  Open Scope sr_scope.
  Definition tid : @tens R := fun a b c d => if Nat.eqb a c && Nat.eqb b d then 1 else 0.
  Definition basis_el (p q : nat) : @mat R := fun i j => if Nat.eqb i p && Nat.eqb j q then 1 else 0.
End TensId.
