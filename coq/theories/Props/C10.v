(* C10 — vibronic structure follows the displaced-oscillator model.
   Statements only; proofs in Proofs/C10.v; model in Model/C10.v (electronic part: Model/C03.v).
   The Franck-Condon tables (operator_factory.shift_operator: LAPACK eig + exp of a 100 x 100 matrix) are an
   oracle: they enter as the Section variable FCtab of the model; the Poisson law and the orthogonality of
   these tables are validated numerically by the harness, not proved.  What is proved, for every ring of
   scalars, every number of molecules, modes and levels: the bookkeeping of the vibrational state space and
   the product structure of all Hamiltonian and dipole elements. *)
From Coq Require Import ZArith List Bool Arith Lia.
From QV Require Import Base.Alg Base.Sums Base.Mat Model.C03 Proofs.C03 Model.C10 Proofs.C10 Model.C10x Proofs.C10x Proofs.C10store.
Import ListNotations.

(* Vibrational signatures of one electronic state (numpy.ndindex over the declared level counts), for every
   list of level counts: exactly the tuples with every entry below its level count, each once, as many as
   the product of the level counts, in row-major order (the tuple v sits at position rank v). *)
Theorem c10_vibrational_signatures_complete_rowmajor : forall shape : list nat,
  length (ndindex shape) = prod shape /\
  (forall v, In v (ndindex shape) <->
     (length v = length shape /\ forall i, i < length shape -> nth i v 0 < nth i shape 0)) /\
  NoDup (ndindex shape) /\
  (forall v, (length v = length shape /\ forall i, i < length shape -> nth i v 0 < nth i shape 0) ->
     rank shape v < prod shape /\ nth (rank shape v) (ndindex shape) [] = v).
Proof.
  intros shape. split; [exact (ndindex_length shape)|]. split; [|split; [exact (ndindex_nodup shape)|]].
  - intros v. rewrite ndindex_In. apply Forall2_lt_nth.
  - intros v Hv. apply ndindex_rank. now apply Forall2_lt_nth.
Qed.
Print Assumptions c10_vibrational_signatures_complete_rowmajor.

(* Every electronic state carries as many vibronic states as the product of the level counts of all its
   modes: the state list is the concatenation, in the order of the electronic states, of one block per
   electronic state; state number offset(ist) + r is (ist, signature ist, r-th vibrational signature), and
   Ntot is the sum over the electronic states of the products. For every list of electronic signatures and
   every assignment of modes. *)
Theorem c10_states_per_electronic_state_are_product_of_level_counts :
  forall (R : StarRing) (Sh : Type) (vm : sig -> list (@submode R Sh)) (sigs : list sig),
  length (vstates Sh vm sigs) = list_sum (map (fun s => prod (nmaxes Sh vm s)) sigs) /\
  (forall ist r, ist < length sigs -> r < prod (nmaxes Sh vm (nth ist sigs [])) ->
     vst Sh vm sigs (list_sum (map (fun s => prod (nmaxes Sh vm s)) (firstn ist sigs)) + r) =
     (ist, nth ist sigs [], nth r (ndindex (nmaxes Sh vm (nth ist sigs []))) [])) /\
  (forall a, a < length (vstates Sh vm sigs) ->
     el_index (vst Sh vm sigs a) < length sigs /\
     nth (el_index (vst Sh vm sigs a)) sigs [] = el_sig (vst Sh vm sigs a) /\
     Forall2 lt (vib_sig (vst Sh vm sigs a)) (nmaxes Sh vm (el_sig (vst Sh vm sigs a)))).
Proof.
  intros R Sh vm sigs. split; [exact (vstates_from_length Sh vm 0 sigs)|]. split.
  - intros ist r Hi Hr. exact (vstates_from_block Sh vm 0 sigs ist r Hi Hr).
  - intros a Ha. pose proof (vst_consistent Sh vm sigs a Ha) as H.
    destruct (vst Sh vm sigs a) as [[i s] v]. exact H.
Qed.
Print Assumptions c10_states_per_electronic_state_are_product_of_level_counts.

(* Hamiltonian: every element between two different vibronic states is the electronic element (the
   Frenkel matrix of C03 for the two electronic states) times the product over all modes of the
   Franck-Condon table entries FCf(a,b); within one electronic state it vanishes (coupling matrix with zero
   diagonal); the diagonal is the electronic energy plus the vibrational quanta. *)
Theorem c10_hamiltonian_elements_factorise : forall (R : StarRing) N (E J : nat -> nat -> R) (sqrtf : nat -> R)
  (Sh K : Type) (shiftdiff : Sh -> Sh -> K) (FCtab : K -> nat -> nat -> R) (vm : sig -> list (@submode R Sh))
  (sigs : list sig),
  let H := vH N E J sqrtf Sh K shiftdiff FCtab vm sigs in
  let FCf := vFC Sh K shiftdiff FCtab vm sigs in
  let st := vst Sh vm sigs in
  forall a b, a < length (vstates Sh vm sigs) -> b < length (vstates Sh vm sigs) ->
    (el_index (st a) <> el_index (st b) ->
       H a b = rmul R (build_H N E J sqrtf sigs (el_index (st a)) (el_index (st b))) (FCf a b)) /\
    (a <> b -> el_index (st a) = el_index (st b) -> (forall k, J k k = r0 R) -> H a b = r0 R) /\
    H a a = radd R (vib_energy Sh (vm (el_sig (st a))) (vib_sig (st a)) (r0 R)) (energy N E (el_sig (st a))).
Proof.
  intros R N E J sqrtf Sh K shiftdiff FCtab vm sigs H FCf st a b Ha Hb. split; [|split].
  - intros Hne. exact (H_factor_el N E J sqrtf Sh K shiftdiff FCtab vm sigs a b Ha Hb Hne).
  - intros Hab Hi HJ. apply (H_same_el N E J sqrtf Sh K shiftdiff FCtab vm sigs a b Hab Hi); [|exact HJ].
    pose proof (vst_consistent Sh vm sigs a Ha) as Ca. pose proof (vst_consistent Sh vm sigs b Hb) as Cb.
    unfold st in Hi. destruct (vst Sh vm sigs a) as [[i1 s1] v1]. destruct (vst Sh vm sigs b) as [[i2 s2] v2].
    cbn [el_index el_sig fst snd] in *. destruct Ca as [_ [Ea _]]. destruct Cb as [_ [Eb _]]. congruence.
  - unfold H, st. rewrite H_diagonal. destruct (vst Sh vm sigs a) as [[i s] v]. reflexivity.
Qed.
Print Assumptions c10_hamiltonian_elements_factorise.

(* Transition dipole: every element is the electronic dipole element (C03) times the same product of
   Franck-Condon entries. *)
Theorem c10_dipole_elements_factorise : forall (R : StarRing) (dip : nat -> nat -> R)
  (Sh K : Type) (shiftdiff : Sh -> Sh -> K) (FCtab : K -> nat -> nat -> R) (vm : sig -> list (@submode R Sh))
  (sigs : list sig) a b c,
  a < length (vstates Sh vm sigs) -> b < length (vstates Sh vm sigs) ->
  vD dip Sh K shiftdiff FCtab vm sigs c a b =
  rmul R (build_D dip sigs c (el_index (vst Sh vm sigs a)) (el_index (vst Sh vm sigs b)))
         (vFC Sh K shiftdiff FCtab vm sigs a b).
Proof. intros R dip Sh K shiftdiff FCtab vm sigs a b c Ha Hb. exact (D_factor dip Sh K shiftdiff FCtab vm sigs a b c Ha Hb). Qed.
Print Assumptions c10_dipole_elements_factorise.

(* If the table for zero displacement is the identity (monitored: shift_operator(0) is exactly the unit
   matrix), vibrational states of one electronic state are orthonormal: FCf(a,b) = delta. *)
Theorem c10_overlaps_within_one_electronic_state_are_delta : forall (R : StarRing)
  (Sh K : Type) (shiftdiff : Sh -> Sh -> K) (FCtab : K -> nat -> nat -> R) (vm : sig -> list (@submode R Sh))
  (sigs : list sig),
  (forall sh q q', FCtab (shiftdiff sh sh) q q' = if Nat.eqb q q' then r1 R else r0 R) ->
  forall a b, a < length (vstates Sh vm sigs) -> b < length (vstates Sh vm sigs) ->
  el_sig (vst Sh vm sigs a) = el_sig (vst Sh vm sigs b) ->
  (vib_sig (vst Sh vm sigs a) = vib_sig (vst Sh vm sigs b) -> vFC Sh K shiftdiff FCtab vm sigs a b = r1 R) /\
  (vib_sig (vst Sh vm sigs a) <> vib_sig (vst Sh vm sigs b) -> vFC Sh K shiftdiff FCtab vm sigs a b = r0 R).
Proof.
  intros R Sh K shiftdiff FCtab vm sigs H0 a b Ha Hb Hs.
  rewrite (FC_same_el Sh K shiftdiff FCtab vm sigs H0 a b Ha Hb Hs).
  destruct (list_eq_dec Nat.eq_dec _ _) as [E|NE]; split; intros H; try reflexivity; contradiction.
Qed.
Print Assumptions c10_overlaps_within_one_electronic_state_are_delta.

(* The list of sub-modes of an electronic state (ElectronicState.vibmodes, the function vm of the theorems above, collected in
   ElectronicState.__init__): all modes of molecule 0, then all modes of molecule 1, ...; the entry of mode a of molecule n is the
   sub-mode belonging to the electronic level nth n s 0 that molecule n is in - for every molecule, also behind molecules without
   modes; its position and the length of the list do not depend on the electronic state. *)
Theorem c10_vibrational_modes_follow_the_electronic_state : forall (SM : Type) (submode_of : nat -> nat -> nat -> SM)
  (nmod : nat -> nat) (N : nat) (s s' : sig) (d : SM),
  length (vibmodes_of SM submode_of nmod N s) = mode_offset nmod N /\
  length (vibmodes_of SM submode_of nmod N s) = length (vibmodes_of SM submode_of nmod N s') /\
  (forall n a, n < N -> a < nmod n ->
     nth (mode_offset nmod n + a) (vibmodes_of SM submode_of nmod N s) d = submode_of n a (nth n s 0)).
Proof.
  intros SM submode_of nmod N s s' d. split; [exact (vibmodes_length SM submode_of nmod N s)|].
  split; [exact (vibmodes_length_indep SM submode_of nmod N s s')|]. exact (vibmodes_nth SM submode_of nmod N s d).
Qed.
Print Assumptions c10_vibrational_modes_follow_the_electronic_state.

(* The look-up table of shift-operator matrices (ho.py fcstorage: two parallel lists, look-up by first index): for EVERY sequence of
   requests made by fc_factor on a table that starts empty, each request is answered with the matrix computed for its own shift -
   the table implements the function shift |-> matrix that the factorisation theorems above take as their Franck-Condon oracle. *)
Theorem c10_fc_table_is_function_of_shift :
  forall (K V : Type) (keqb : K -> K -> bool), (forall a b, keqb a b = true <-> a = b) ->
  forall (f : K -> V) (ks : list K), serve keqb f ks st_new = map (fun k => Some (f k)) ks.
Proof. exact table_is_function_of_shift. Qed.
Print Assumptions c10_fc_table_is_function_of_shift.

(* ---------------- non-vacuity ---------------- *)
Example c10_example_ndindex :
  ndindex [2; 3] = [[0;0]; [0;1]; [0;2]; [1;0]; [1;1]; [1;2]] /\ rank [2; 3] [1; 1] = 4 /\ ndindex [] = [[]] /\
  ndindex [2; 0] = [].
Proof. vm_compute. repeat split. Qed.

(* a dimer: molecule 0 has one mode with 2 levels in the ground and 3 in the excited state, molecule 1 none *)
Example c10_example_states :
  let vm : sig -> list (@submode ZR nat) := fun s => [@mkSub ZR nat (match nth 0 s 0 with 0 => 2 | _ => 3 end) 1%Z (nth 0 s 0)] in
  map (fun x => (el_index x, vib_sig x)) (vstates nat vm (elsigs [1; 1] 1)) =
  [(0, [0]); (0, [1]); (1, [0]); (1, [1]); (1, [2]); (2, [0]); (2, [1])].
Proof. vm_compute. reflexivity. Qed.

(* three molecules with 1, 0 and 2 modes in the state (1, 0, 1): the entries are (molecule, mode, level) *)
Example c10_example_vibmodes :
  vibmodes_of (nat * nat * nat) (fun n a l => (n, a, l)) (fun n => match n with 0 => 1 | 1 => 0 | _ => 2 end) 3 [1; 0; 1]
  = [(0, 0, 1); (2, 0, 1); (2, 1, 1)].
Proof. vm_compute. reflexivity. Qed.

(* the hypothesis of c10_fc_table_is_function_of_shift is met by Nat.eqb; three requests, the second one repeated *)
Example c10_example_fc_table :
  (forall a b, Nat.eqb a b = true <-> a = b) /\ serve Nat.eqb (fun k => 10 * k) [2; 5; 2] st_new = [Some 20; Some 50; Some 20].
Proof. split; [exact Nat.eqb_eq | vm_compute; reflexivity]. Qed.
