(* C03 — the aggregate Hamiltonian and dipole operator are the Frenkel-exciton ones.
   Statements only; proofs in Proofs/C03.v, Proofs/C03_frenkel.v, Proofs/C03_relabel.v; model in Model/C03.v.
   The matrix statements hold over every commutative ring (in particular over the rationals, which
   contain every float64 value), for every number of molecules N and every exciton multiplicity. *)
From Coq Require Import ZArith List Bool Arith Lia Permutation Field QArith Qcanon.
From QV Require Import Base.Alg Base.Sums Base.Mat Model.C03 Model.C03dd Proofs.C03 Proofs.C03_frenkel Proofs.C03_relabel Proofs.C03dd.
Import ListNotations.
Local Open Scope nat_scope.

(* State enumeration (elsignatures/_add_excitation/allstates): for every list of per-molecule maximal
   excitations (any number of molecules with any numbers of levels) and every multiplicity, the generated
   list holds exactly the signatures within the per-molecule bounds whose number of excitations is at most
   mult, each once, ordered by band; which_band is the number of excitations, the per-band generation
   (mode "EQ", used for Nb) yields exactly the band, and the band sizes add up to the number of states. *)
Theorem c03_signatures_complete_duplicate_free_band_ordered : forall (omax : list nat) (mult : nat),
  (forall s, In s (elsigs omax mult) <->
     ((length s = length omax /\ forall i, nth i s 0 <= nth i omax 0) /\ list_sum s <= mult)) /\
  NoDup (elsigs omax mult) /\
  (forall a b, a < b -> b < length (elsigs omax mult) ->
     band (nth a (elsigs omax mult) []) <= band (nth b (elsigs omax mult) [])) /\
  (forall a, nth a (which_band omax mult) 0 = list_sum (nth a (elsigs omax mult) [])) /\
  (forall k s, In s (elsigs_eq omax k) <->
     ((length s = length omax /\ forall i, nth i s 0 <= nth i omax 0) /\ list_sum s = k)) /\
  (forall k, NoDup (elsigs_eq omax k)) /\
  length (elsigs omax mult) = list_sum (Nb omax mult) /\
  nth 0 (elsigs omax mult) [] = repeat 0 (length omax).
Proof.
  intros omax mult. split; [exact (elsigs_spec omax mult)|]. split; [exact (elsigs_nodup omax mult)|].
  split; [exact (elsigs_sorted omax mult)|]. split; [exact (which_band_spec omax mult)|].
  split; [exact (elsigs_eq_spec omax)|]. split; [exact (elsigs_eq_nodup omax)|].
  split; [exact (elsigs_length omax mult)|exact (elsigs_ground_first omax mult)].
Qed.
Print Assumptions c03_signatures_complete_duplicate_free_band_ordered.

(* Two-level molecules: the explicit order. Ground state, then the singly excited states in site order
   (so that state 1+k carries the excitation of molecule k, for every multiplicity >= 1), then the pairs
   (i<j) in lexicographic order; Nb = [1, N, N(N-1)/2]. *)
Theorem c03_two_level_order_and_band_sizes : forall N,
  elsigs (two_level N) 2 =
    repeat 0 N :: map (unit_sig N) (seq 0 N) ++
    flat_map (fun i => map (fun j => raise (unit_sig N i) j) (seq (S i) (N - S i))) (seq 0 N) /\
  (exists n2, Nb (two_level N) 2 = [1; N; n2] /\ 2 * n2 = N * (N - 1)) /\
  (forall mult k, 1 <= mult -> k < N ->
     nth (S k) (elsigs (two_level N) mult) [] = unit_sig N k /\ S k < length (elsigs (two_level N) mult)).
Proof.
  intros N. split; [|split].
  - pose proof (elsigs_head (two_level N) 2 (two_level_ok N) ltac:(lia)) as H.
    assert (length (two_level N) = N) as EL by apply repeat_length. rewrite EL in H. rewrite H.
    cbn [seq Nat.sub flat_map]. rewrite app_nil_r. unfold elsigs_eq. rewrite level_2_two_level.
    rewrite map_flat_map'. do 2 f_equal. apply flat_map_ext_in'. intros i _. now rewrite map_map.
  - exists (length (elsigs_eq (two_level N) 2)). exact (Nb_two_level N).
  - intros mult k Hm Hk. exact (two_level_single_index N mult k Hm Hk).
Qed.
Print Assumptions c03_two_level_order_and_band_sizes.

(* The Hamiltonian filled by build() for two-level molecules is the Frenkel matrix, for every N, every
   multiplicity, all site energies E and every symmetric coupling matrix J:
   diagonal = sum over the molecules of the energy of the level they are in; an element between two states
   where one excitation has moved from molecule k to molecule l = J k l; every other element, in
   particular every element between different bands, = 0. *)
Theorem c03_hamiltonian_is_frenkel : forall (R : StarRing) N (E J : nat -> nat -> R) (sqrtf : nat -> R) mult,
  sqrtf 1 = r1 R -> (forall k l, J k l = J l k) ->
  let sigs := elsigs (two_level N) mult in
  let H := build_H N E J sqrtf sigs in
  forall a b, a < length sigs -> b < length sigs ->
    H a a = sum N (fun k => E k (nth k (nth a sigs []) 0)) /\
    (forall k l, moved (nth a sigs []) (nth b sigs []) k l -> H a b = J k l) /\
    (a <> b -> (forall k l, ~ moved (nth a sigs []) (nth b sigs []) k l) -> H a b = r0 R) /\
    (band (nth a sigs []) <> band (nth b sigs []) -> H a b = r0 R).
Proof.
  intros R N E J sqrtf mult Hs HJ sigs H a b Ha Hb. split; [apply H_diag|]. split; [|split].
  - intros k l Hm. exact (H_move N E J sqrtf Hs mult a b k l HJ Ha Hb Hm).
  - intros Hab Hn. exact (H_zero N E J sqrtf mult a b Ha Hb Hab Hn).
  - intros Hbd. exact (H_interband N E J sqrtf sigs a b Hbd).
Qed.
Print Assumptions c03_hamiltonian_is_frenkel.

(* ... and it is real symmetric (for every list of states, any level structure) *)
Theorem c03_hamiltonian_real_symmetric : forall (R : StarRing) N (E J : nat -> nat -> R) (sqrtf : nat -> R)
  (sigs : list sig) a b,
  ((forall k l, J k l = J l k) -> build_H N E J sqrtf sigs a b = build_H N E J sqrtf sigs b a) /\
  ((forall k n, is_real R (E k n)) -> (forall k l, is_real R (J k l)) -> (forall n, is_real R (sqrtf n)) ->
   is_real R (build_H N E J sqrtf sigs a b)).
Proof.
  intros R N E J sqrtf sigs a b. split; [intros HJ; exact (H_sym N E J sqrtf sigs a b HJ)|].
  intros h1 h2 h3. exact (H_real N E J sqrtf sigs a b h1 h2 h3).
Qed.
Print Assumptions c03_hamiltonian_real_symmetric.

(* Transition dipole operator: the element between two states is the transition dipole of molecule k when
   the states differ in the state of exactly that molecule, and zero otherwise; non-zero elements connect
   adjacent bands only. *)
Theorem c03_dipole_selection_rule : forall (R : StarRing) N (dip : nat -> nat -> R) mult,
  let sigs := elsigs (two_level N) mult in
  forall a b c, a < length sigs -> b < length sigs ->
    (forall k, differ_at (nth a sigs []) (nth b sigs []) k -> build_D dip sigs c a b = dip k c) /\
    ((forall k, ~ differ_at (nth a sigs []) (nth b sigs []) k) -> build_D dip sigs c a b = r0 R) /\
    ((band (nth a sigs []) - band (nth b sigs [])) + (band (nth b sigs []) - band (nth a sigs [])) <> 1 ->
     build_D dip sigs c a b = r0 R).
Proof.
  intros R N dip mult sigs a b c Ha Hb. split; [|split].
  - intros k Hd. exact (D_one N dip mult a b k c Ha Hb Hd).
  - intros Hn. exact (D_zero N dip mult a b c Ha Hb Hn).
  - intros Hn. exact (D_adjacent_bands N dip mult a b c Ha Hb Hn).
Qed.
Print Assumptions c03_dipole_selection_rule.

(* Relabelling: for every permutation sigma of the molecules (new molecule i = old molecule sigma(i),
   energies, couplings and dipoles carried along) there is an injective, band-preserving map pi of the state
   indices onto themselves with H'(pi a, pi b) = H(a, b) and D'(pi a, pi b) = D(a, b): the matrices of the
   relabelled aggregate are those of the original one conjugated by a permutation matrix. *)
Theorem c03_relabelling_permutes_the_matrices : forall (R : StarRing) N (E J dip : nat -> nat -> R)
  (sqrtf : nat -> R) mult (sigma : list nat),
  sqrtf 1 = r1 R -> (forall k l, J k l = J l k) -> Permutation sigma (seq 0 N) ->
  let sigs := elsigs (two_level N) mult in
  let E' := fun i n => E (pfun sigma i) n in
  let J' := fun i j => J (pfun sigma i) (pfun sigma j) in
  let dip' := fun i c => dip (pfun sigma i) c in
  let pi := pi_idx N mult sigma in
  (forall a, a < length sigs -> pi a < length sigs /\ nth (pi a) sigs [] = relabel_sig sigma (nth a sigs []) /\
                               band (nth (pi a) sigs []) = band (nth a sigs [])) /\
  (forall a b, a < length sigs -> b < length sigs -> pi a = pi b -> a = b) /\
  (forall a b, a < length sigs -> b < length sigs ->
     build_H N E' J' sqrtf sigs (pi a) (pi b) = build_H N E J sqrtf sigs a b /\
     forall c, build_D dip' sigs c (pi a) (pi b) = build_D dip sigs c a b).
Proof.
  intros R N E J dip sqrtf mult sigma Hs HJ Hp sigs E' J' dip' pi. split; [|split].
  - intros a Ha. destruct (pi_spec N mult sigma Hp a Ha) as [H1 H2]. split; [exact H1|]. split; [exact H2|].
    exact (pi_band N mult sigma Hp a Ha).
  - intros a b Ha Hb. exact (pi_inj N mult sigma Hp a b Ha Hb).
  - intros a b Ha Hb. split; [exact (relabel_H N E J sqrtf Hs HJ mult sigma Hp a b Ha Hb)|].
    intros c. exact (relabel_D N dip mult sigma Hp a b c Ha Hb).
Qed.
Print Assumptions c03_relabelling_permutes_the_matrices.

(* Dipole-dipole coupling (interactions.py), over every field of characteristic different from 2, with
   RR the value returned by sqrt: the code's expression is the point-dipole formula
   (d1.d2 - 3 (d1.n)(d2.n)) / (4 pi eps0 eps_r R^3), n = (r1-r2)/R a unit vector, symmetric in the two
   molecules. *)
Theorem c03_dipole_dipole_is_point_dipole_formula : forall (F : Type) (f0 f1 : F) (fadd fmul fsub : F -> F -> F)
  (fopp : F -> F) (fdiv : F -> F -> F) (finv : F -> F),
  field_theory f0 f1 fadd fmul fsub fopp fdiv finv (@eq F) ->
  forall r1 r2 d1 d2 RR pi eps0 epsr,
  RR <> f0 -> pi <> f0 -> eps0 <> f0 -> epsr <> f0 -> fadd f1 f1 <> f0 ->
  let dot := fdot3 F fadd fmul in
  let n := fun c => fdiv (fsub (r1 c) (r2 c)) RR in
  dipole_dipole F f1 fadd fmul fsub fdiv r1 r2 d1 d2 RR pi eps0 epsr =
    fdiv (fsub (dot d1 d2) (fmul (fmul (f3 F f1 fadd) (dot d1 n)) (dot d2 n)))
         (fmul (fmul (fmul (fmul (f4 F f1 fadd) pi) eps0) epsr) (fmul (fmul RR RR) RR)) /\
  (fmul RR RR = dot (fun c => fsub (r1 c) (r2 c)) (fun c => fsub (r1 c) (r2 c)) -> dot n n = f1) /\
  dipole_dipole F f1 fadd fmul fsub fdiv r1 r2 d1 d2 RR pi eps0 epsr =
    dipole_dipole F f1 fadd fmul fsub fdiv r2 r1 d2 d1 RR pi eps0 epsr.
Proof.
  intros F f0 f1 fadd fmul fsub fopp fdiv finv Fth r1 r2 d1 d2 RR pi eps0 epsr H1 H2 H3 H4 H5 dot n.
  split; [exact (dd_point_dipole F f0 f1 fadd fmul fsub fopp fdiv finv Fth r1 r2 d1 d2 RR pi eps0 epsr H1 H2 H3 H4 H5)|].
  split; [intros Hq; exact (dd_unit_vector F f0 f1 fadd fmul fsub fopp fdiv finv Fth r1 r2 RR H1 Hq)|].
  exact (dd_symmetric F f0 f1 fadd fmul fsub fopp fdiv finv Fth r1 r2 d1 d2 RR pi eps0 epsr H1 H2 H3 H4 H5).
Qed.
Print Assumptions c03_dipole_dipole_is_point_dipole_formula.

(* Physical prefactor: with eps0_int = 1e19/(4 pi J2int) (core/units.py) the prefactor is J2int*1e-19, and
   with mu0 = 4 pi 1e-7, eps0 mu0 c^2 = 1, 1 D = 1e-21/c C m, 1 A = 1e-10 m the value computed by the code
   is J2int (the Joule -> internal conversion) times the SI point-dipole energy of dipoles given in Debye
   at positions given in Angstrom. *)
Theorem c03_dipole_dipole_prefactor_is_SI_for_debye_angstrom : forall (F : Type) (f0 f1 : F)
  (fadd fmul fsub : F -> F -> F) (fopp : F -> F) (fdiv : F -> F -> F) (finv : F -> F),
  field_theory f0 f1 fadd fmul fsub fopp fdiv finv (@eq F) ->
  forall r1 r2 d1 d2 RR ten pi c J2int epsr,
  RR <> f0 -> ten <> f0 -> pi <> f0 -> c <> f0 -> J2int <> f0 -> epsr <> f0 -> fadd f1 f1 <> f0 ->
  let pw := pw F f1 fmul in
  let four := f4 F f1 fadd in
  let dot := fdot3 F fadd fmul in
  let eps0i := eps0_int F f1 fadd fmul fdiv (pw ten 19) pi J2int in
  let mu0 := fdiv (fmul four pi) (pw ten 7) in
  let eps0SI := fdiv f1 (fmul (fmul mu0 c) c) in
  let debye := fdiv f1 (fmul (pw ten 21) c) in
  let angstrom := fdiv f1 (pw ten 10) in
  let n := fun k => fdiv (fsub (r1 k) (r2 k)) RR in
  let D1 := fun k => fmul debye (d1 k) in
  let D2 := fun k => fmul debye (d2 k) in
  let Rm := fmul angstrom RR in
  fdiv f1 (fmul (fmul four pi) eps0i) = fdiv J2int (pw ten 19) /\
  dipole_dipole F f1 fadd fmul fsub fdiv r1 r2 d1 d2 RR pi eps0i epsr =
    fmul J2int (fdiv (fsub (dot D1 D2) (fmul (fmul (f3 F f1 fadd) (dot D1 n)) (dot D2 n)))
                     (fmul (fmul (fmul (fmul four pi) eps0SI) epsr) (fmul (fmul Rm Rm) Rm))).
Proof.
  intros F f0 f1 fadd fmul fsub fopp fdiv finv Fth r1 r2 d1 d2 RR ten pi c J2int epsr H1 H2 H3 H4 H5 H6 H7. cbv zeta.
  split; [exact (prefactor_int F f0 f1 fadd fmul fsub fopp fdiv finv Fth ten pi J2int H2 H3 H5 H7)|].
  exact (dd_is_SI F f0 f1 fadd fmul fsub fopp fdiv finv Fth r1 r2 d1 d2 RR ten pi c J2int epsr H1 H2 H3 H4 H5 H6 H7).
Qed.
Print Assumptions c03_dipole_dipole_prefactor_is_SI_for_debye_angstrom.

(* Coupling matrix set from the geometry (set_coupling_by_dipole_dipole(epsr, delta) calling dipole_dipole_coupling for every
   pair kk < ll and storing both elements): the matrix is symmetric, its diagonal is left as it was, every off-diagonal element
   is the point-dipole formula of the two molecules' positions and transition dipoles with the relative permittivity that was
   asked for, and a pair refused by dipole_dipole_coupling (closer than delta) gets zero in both elements. *)
Theorem c03_dipole_dipole_coupling_matrix : forall (F : Type) (f0 f1 : F) (fadd fmul fsub : F -> F -> F)
  (fopp : F -> F) (fdiv : F -> F -> F) (finv : F -> F),
  field_theory f0 f1 fadd fmul fsub fopp fdiv finv (@eq F) ->
  forall (pos dmom RRf : nat -> nat -> F) (close : nat -> nat -> bool) (pi eps0 : F) (J0 : nat -> nat -> F) (epsr : F),
  let M := dd_matrix F f0 f1 fadd fmul fsub fdiv pos dmom RRf close pi eps0 J0 epsr in
  let dot := fdot3 F fadd fmul in
  (forall a b, a <> b -> M a b = M b a) /\
  (forall a, M a a = J0 a a) /\
  (forall a b, a < b -> close a b = false ->
     RRf a b <> f0 -> pi <> f0 -> eps0 <> f0 -> epsr <> f0 -> fadd f1 f1 <> f0 ->
     let n := fun c => fdiv (fsub (pos a c) (pos b c)) (RRf a b) in
     M a b = fdiv (fsub (dot (dmom a) (dmom b)) (fmul (fmul (f3 F f1 fadd) (dot (dmom a) n)) (dot (dmom b) n)))
                  (fmul (fmul (fmul (fmul (f4 F f1 fadd) pi) eps0) epsr) (fmul (fmul (RRf a b) (RRf a b)) (RRf a b)))) /\
  (forall a b, a < b -> close a b = true -> M a b = f0 /\ M b a = f0).
Proof.
  intros F f0 f1 fadd fmul fsub fopp fdiv finv Fth pos dmom RRf close pi eps0 J0 epsr M dot.
  split; [intros a b Hab; exact (dd_matrix_sym F f0 f1 fadd fmul fsub fdiv pos dmom RRf close pi eps0 J0 epsr a b Hab)|].
  split; [intros a; exact (dd_matrix_diag F f0 f1 fadd fmul fsub fdiv pos dmom RRf close pi eps0 J0 epsr a)|].
  split; [intros a b Hab Hc H1 H2 H3 H4 H5;
          exact (dd_matrix_formula F f0 f1 fadd fmul fsub fopp fdiv finv Fth pos dmom RRf close pi eps0 J0 epsr a b Hab Hc H1 H2 H3 H4 H5)|].
  intros a b Hab Hc. exact (dd_matrix_refused F f0 f1 fadd fmul fsub fdiv pos dmom RRf close pi eps0 J0 epsr a b Hab Hc).
Qed.
Print Assumptions c03_dipole_dipole_coupling_matrix.

(* ---------------- non-vacuity ---------------- *)
Example c03_example_states :
  elsigs [1; 1; 1] 2 = [[0;0;0]; [1;0;0]; [0;1;0]; [0;0;1]; [1;1;0]; [1;0;1]; [0;1;1]] /\
  Nb [1; 1; 1] 2 = [1; 3; 3] /\ which_band [1; 1; 1] 2 = [0; 1; 1; 1; 2; 2; 2] /\
  elsigs [2; 1] 2 = [[0;0]; [1;0]; [0;1]; [2;0]; [1;1]].
Proof. vm_compute. repeat split. Qed.

(* a trimer with energies 10, 11, 12 and couplings J01 = 2, J02 = 3, J12 = 5 *)
Example c03_example_hamiltonian :
  let Em : nat -> nat -> ZR := fun k n => match n with O => 0%Z | _ => (10 + Z.of_nat k)%Z end in
  let Jm := zmat [[0;2;3];[2;0;5];[3;5;0]]%Z in
  let s := elsigs (two_level 3) 2 in
  map (fun a => map (fun b => build_H (R:=ZR) 3 Em Jm zsqrt s a b) (seq 0 7)) (seq 0 7) =
  [[0; 0; 0; 0; 0; 0; 0]; [0; 10; 2; 3; 0; 0; 0]; [0; 2; 11; 5; 0; 0; 0]; [0; 3; 5; 12; 0; 0; 0];
   [0; 0; 0; 0; 21; 5; 3]; [0; 0; 0; 0; 5; 22; 2]; [0; 0; 0; 0; 3; 2; 23]]%Z.
Proof. vm_compute. reflexivity. Qed.

(* the relabelling map of the cyclic permutation (1 2 0) of three molecules is a genuine permutation of the states *)
Example c03_example_relabelling :
  map (pi_idx 3 2 [1; 2; 0]) (seq 0 7) = [0; 3; 1; 2; 5; 6; 4] /\ Permutation [1; 2; 0] (seq 0 3).
Proof.
  split; [vm_compute; reflexivity|]. cbn [seq]. apply Permutation_sym.
  apply (perm_trans (l' := [1; 0; 2])); [apply perm_swap|]. apply perm_skip. apply perm_swap.
Qed.

(* the field hypotheses of the dipole-dipole theorems are satisfiable: the rationals *)
Example c03_example_field := c03_dipole_dipole_is_point_dipole_formula Qc (Q2Qc 0) (Q2Qc 1) Qcplus Qcmult Qcminus Qcopp Qcdiv Qcinv Qcft.
Example c03_example_dd_matrix := c03_dipole_dipole_coupling_matrix Qc (Q2Qc 0) (Q2Qc 1) Qcplus Qcmult Qcminus Qcopp Qcdiv Qcinv Qcft.
