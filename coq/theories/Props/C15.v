(* C15 - propagation results are functions of their inputs only.
   Statements only; model in Model/C15.v (effect model: every call is a straight-line program over the
   fields of the shared objects, numerical kernels uninterpreted), proofs in Proofs/C15.v.

   [interp]      carrier + meaning of the kernel symbols + application: ANY numerical behaviour
   [recover_law] the one identity the code relies on: recover_cutoff_coupling undoes
                 subtract_cutoff_coupling (monitored on the real Hamiltonian on every run)
   [clean w]     the caller has not protected the Hamiltonian and no cut-off subtraction is pending
   [api s]       tensor construction (all theories that can be constructed, and the construction that
                 raises), rate matrix, propagate of every density-matrix propagator kind with and
                 without Nref, state-vector / population / hierarchy propagate (with and without
                 report_hierarchy / free_hierarchy), EvolutionSuperOperator.calculate
   [repaired]    the code with the three repairs (hierarchy reset, Nref restored, try/finally in
                 get_RelaxationTensor); [pinned] the code as found. *)
From Coq Require Import List Bool Arith.
From QV Require Import Model.C15 Proofs.C15 Proofs.C15gen.
Import ListNotations.

(* For EVERY history of calls on the shared objects, in every interpretation of the kernels: all input
   fields (Hamiltonian data and flags, system-bath interaction, tensors, states, time axis, hierarchy
   description, propagator configuration) hold the values they held before the history. *)
Theorem c15_inputs_unchanged : forall (I : interp), recover_law I ->
  forall (h : list call) (w : world I), clean w -> Forall (fun cl => api (sh cl) = true) h ->
  clean (run repaired h w) /\ forall f, is_input f = true -> run repaired h w f = w f.
Proof. intros I law h w. exact (run_inputs I law h w). Qed.
Print Assumptions c15_inputs_unchanged.

(* ... and the result of any call after the history equals its result before the history, whatever was
   computed in between (hidden working state - auxiliary operators, caches, scratch - has no influence). *)
Theorem c15_repeatable : forall (I : interp), recover_law I ->
  forall (h : list call) (w : world I) (cl : call), clean w ->
  Forall (fun cl => api (sh cl) = true) h -> api (sh cl) = true ->
  result repaired (run repaired h w) cl = result repaired w cl.
Proof. intros I law h w cl. exact (repeatable I law h w cl). Qed.
Print Assumptions c15_repeatable.

(* the result of a call is a function of the input fields and the call's arguments only *)
Theorem c15_result_function_of_inputs : forall (I : interp), recover_law I ->
  forall (w1 w2 : world I) (cl : call), clean w1 -> clean w2 -> api (sh cl) = true ->
  (forall f, is_input f = true -> w1 f = w2 f) -> result repaired w1 cl = result repaired w2 cl.
Proof. intros I law w1 w2 cl. exact (result_depends I law w1 w2 cl). Qed.
Print Assumptions c15_result_function_of_inputs.

(* the symbolic run used by the finite checks and by the correspondence describes the execution in
   every interpretation satisfying the law *)
Theorem c15_symbolic_run_sound : forall (I : interp), recover_law I ->
  forall (w : world I) v s f, clean w -> exec (prog_of v s) w f = eval w (sym_run v s f).
Proof. intros I law w v s f Hc. exact (sym_run_sound I law w v s Hc f). Qed.
Print Assumptions c15_symbolic_run_sound.

(* the free interpretation (in which the correspondence check runs) satisfies the law: the theorems
   are not vacuous, and equal terms there mean equal values in every interpretation *)
Theorem c15_free_interpretation_lawful : recover_law Free /\ clean w_init.
Proof. split; [exact free_law | exact w_init_clean]. Qed.
Print Assumptions c15_free_interpretation_lawful.

(* pinned code: the auxiliary operators of one hierarchy run are the start of the next one *)
Theorem c15_heom_carryover_refuted : exists (h : list call) (c1 : call),
  Forall (fun cl => api (sh cl) = true) (c1 :: h) /\
  result pinned (run pinned h w_init) c1 <> result pinned w_init c1.
Proof.
  exists [cl (Heom false false) 0 4 0], (cl (Heom false false) 0 4 0). split.
  - repeat constructor.
  - exact heom_carryover_witness.
Qed.
Print Assumptions c15_heom_carryover_refuted.

(* pinned code: propagate(rho, Nref=3) changes the propagator's setting and the next propagate(rho) *)
Theorem c15_nref_sticky_refuted : exists (h : list call) (c1 : call),
  Forall (fun cl => api (sh cl) = true) (c1 :: h) /\
  result pinned (run pinned h w_init) c1 <> result pinned w_init c1 /\
  run pinned h w_init (PConf (PT T)) <> w_init (PConf (PT T)).
Proof.
  exists [cl (DMProp (PT T) true) 3 4 0], (cl (DMProp (PT T) false) 0 4 0). split.
  - repeat constructor.
  - exact nref_sticky_witness.
Qed.
Print Assumptions c15_nref_sticky_refuted.

(* pinned code: a tensor construction that raises leaves the Hamiltonian with reduced couplings and
   protected; a later propagation with that Hamiltonian differs *)
Theorem c15_reltensor_exception_refuted : exists (h : list call) (c1 : call),
  Forall (fun cl => api (sh cl) = true) (c1 :: h) /\
  run pinned h w_init HamData <> w_init HamData /\
  run pinned h w_init HamProt <> w_init HamProt /\
  result pinned (run pinned h w_init) c1 <> result pinned w_init c1.
Proof.
  exists [cl (RelTFail FailCRFTD) 0 4 7], (cl (DMProp PH false) 0 4 0). split.
  - repeat constructor.
  - exact reltensor_exception_witness.
Qed.
Print Assumptions c15_reltensor_exception_refuted.

(* ---- the static tie (harness/translate_c15.py) compares, per shape of call, the fields the current source may write with
   [model_written] / [model_changed] of the model's programs.  What that comparison buys: ---- *)

(* the fields the model's symbolic run of a call of the property leaves changed are never input fields *)
Theorem c15_changed_fields_not_inputs : forall s, api s = true ->
  forallb (fun f => negb (is_input f)) (model_changed s) = true.
Proof. exact model_changed_not_input. Qed.
Print Assumptions c15_changed_fields_not_inputs.

(* hence a write set of the code accepted by [changed_ok] (every field whose last write may leave it changed - not a
   restore of the value found, not the recovery of the cut-off subtraction, not the clean value of a flag - is one the
   model changes) cannot leave an input field changed *)
Theorem c15_accepted_write_set_keeps_inputs : forall s (code : list (field * list wkind)), api s = true ->
  changed_ok s code = true -> forall f ks, In (f, ks) code -> existsb (may_change f) ks = true -> is_input f = false.
Proof. exact changed_ok_no_input. Qed.
Print Assumptions c15_accepted_write_set_keeps_inputs.

(* non-vacuity: a concrete history through all object kinds in the free interpretation; the combined
   tensor construction restores the Hamiltonian (the law fires), results repeat, hidden state moved *)
Example c15_example :
  let h := [cl (RelT CRF) 0 4 7; cl (DMProp (PT T) true) 3 4 0; cl (Heom true false) 0 4 0;
            cl (Heom false true) 0 4 0; cl (RelTFail FailCRFTD) 0 4 7; cl (EsoCalc EPDG) 0 4 0;
            cl (DMProp PPD false) 0 4 0; cl (RelT F) 0 4 0] in
  let w := run repaired h w_init in
  w HamData = Rd HamData /\ w HamProt = Sy CFalse /\ w (PConf (PT T)) = Rd (PConf (PT T)) /\
  w HyAdo <> w_init HyAdo /\ w HamJR = Sy CZeros /\
  result repaired w (cl (Heom false false) 0 4 0) = result repaired w_init (cl (Heom false false) 0 4 0) /\
  result repaired w (cl (DMProp (PT T) false) 0 4 0) = result repaired w_init (cl (DMProp (PT T) false) 0 4 0) /\
  result repaired w_init (cl (DMProp (PT T) true) 3 4 0) <> result repaired w_init (cl (DMProp (PT T) true) 2 4 0).
Proof.
  vm_compute. repeat split; try reflexivity; apply expr_neq; vm_compute; reflexivity.
Qed.
(* [changed_ok] is not vacuous: it accepts the restore of the refinement and rejects a plain overwrite of it *)
Example c15_example_changed_ok :
  changed_ok (DMProp (PT T) true) [(PConf (PT T), [WRestore])] = true /\
  changed_ok (DMProp (PT T) true) [(PConf (PT T), [WAny])] = false /\
  changed_ok (RelT CRF) [(HamData, [WAddBack]); (HamProt, [WConst CFalse]); (HamJR, [WAny])] = true /\
  changed_ok (RelT CRF) [(HamData, [WSub])] = false.
Proof. vm_compute. repeat split; reflexivity. Qed.
