(* C13 — Fourier transforms and time/frequency axes are mutually inverse.
   Statements only; proofs in Proofs/C13.v and Base/Dft.v, model in Model/C13.v.

   Axes: any field K of characteristic 0 with a non-zero element tp (2 pi).  Values: any commutative ring R
   with involution containing zeta with zeta^L = 1, L the length of the transformed array; index n of a
   complete time axis stands for the time (n - L/2) dt, index j of the frequency axis for (j - L/2) dw, and
   dt dw = 2 pi / L (theorem c13_conjugate_steps), so  exp(i w_j t_n) = zeta^((n - L/2)(j - L/2)).
   numpy.fft.fft / ifft are oracles assumed to compute the defining sums (fft_spec, ifft_spec).
   Round trips additionally assume orthogonality of the powers of zeta (true of exp(2 pi i / L)). *)
From Coq Require Import ZArith List Bool Arith QArith Qcanon Lia.
From QV Require Import Base.Alg Base.Sums Base.Dft Model.C13 Proofs.C13 Proofs.C13gen Proofs.DftOrth.
Import ListNotations.

(* ---- the shifts ---- *)
Theorem c13_shift_laws :
  (forall (A : Type) (l : list A), ifftshift (fftshift l) = l /\ fftshift (ifftshift l) = l) /\
  (forall (A : Type) (l : list A), Nat.even (length l) = true -> fftshift (fftshift l) = l) /\
  (forall (A : Type) (l : list A), Nat.odd (length l) = true -> fftshift (fftshift l) = rot 1 l) /\
  (forall n, Nat.odd n = true -> (3 <= n)%nat -> fftshift (fftshift (seq 0 n)) <> seq 0 n).
Proof.
  split; [intros A l; split; [apply ifftshift_fftshift|apply fftshift_ifftshift]|].
  split; [intros A l; apply fftshift_fftshift_even|].
  split; [intros A l; apply fftshift_fftshift_odd|exact fftshift_fftshift_odd_neq].
Qed.
Print Assumptions c13_shift_laws.

(* ---- axes ---- *)
(* time axis -> frequency axis -> the same time axis (start, length, step, type, frequency_start), for both
   types and every length the code accepts (complete: >= 2 points, upper-half: >= 1 point), even or odd *)
Theorem c13_axis_roundtrip_from_time : forall (K : Fld) (tp : K),
  tp <> f0 K -> (forall n, ofnat K (S n) <> f0 K) ->
  forall t : axis K, valid_axis K t ->
  exists w, freq_axis_of K tp t = Some w /\ time_axis_of K tp w = Some t.
Proof. exact time_freq_time. Qed.
Print Assumptions c13_axis_roundtrip_from_time.

(* frequency axis -> time axis -> the same frequency axis; an upper-half frequency axis needs an even length,
   and is refused otherwise *)
Theorem c13_axis_roundtrip_from_frequency : forall (K : Fld) (tp : K),
  tp <> f0 K -> (forall n, ofnat K (S n) <> f0 K) ->
  (forall w : axis K, valid_freq_axis K w ->
     exists t, time_axis_of K tp w = Some t /\ freq_axis_of K tp t = Some w) /\
  (forall w : axis K, a_type w = UpperHalf -> Nat.even (a_len w) = false -> time_axis_of K tp w = None).
Proof.
  intros K tp H1 H2. split; [exact (freq_time_freq K tp H1 H2)|exact (odd_upper_refused K tp)].
Qed.
Print Assumptions c13_axis_roundtrip_from_frequency.

(* the steps of conjugate axes satisfy dt * (dw / 2 pi) * L = 1 *)
Theorem c13_conjugate_steps : forall (K : Fld) (tp : K),
  tp <> f0 K -> (forall n, ofnat K (S n) <> f0 K) ->
  forall t w : axis K, valid_axis K t -> freq_axis_of K tp t = Some w ->
  fmul K (fmul K (a_step t) (fdiv K (a_step w) tp)) (ofnat K (a_len w)) = f1 K.
Proof. exact conj_steps. Qed.
Print Assumptions c13_conjugate_steps.

(* ---- transforms, complete axes ---- *)
(* repaired code: the transform of a function on a complete time axis is the direct Fourier sum
   dt * sum_n f(t_n) exp(i w_j t_n)  at every point j of the returned axis — every length, every complex data;
   likewise the inverse transform of a function on a complete frequency axis with exp(-i w t) and dw / 2 pi *)
Theorem c13_ft_complete_is_fourier_sum : forall (R : StarRing) (L : nat) (zeta : R),
  L <> 0%nat -> pow zeta L = r1 R ->
  forall fft ifft, fft_spec L zeta fft -> ifft_spec L zeta ifft ->
  forall (y : list R) (j : nat), length y = L -> (j < L)%nat ->
  (forall d, nth j (ft_time ifft Repaired Complete d y) (r0 R) = rmul R d (csum L zeta 1 y j)) /\
  (forall dw itp, nth j (ift_freq fft Repaired Complete dw itp y) (r0 R) = rmul R (rmul R dw itp) (csum L zeta (-1) y j)).
Proof.
  intros R L zeta Lpos Hz fft ifft Hf Hi y j Hy Hj. split.
  - intros d. rewrite (ft_time_complete_xform L) by exact Hy.
    apply (xform_repaired_sum L Lpos zeta 1); try assumption. now apply Lifft_is_dft.
  - intros dw itp. rewrite ift_freq_complete_xform.
    now apply (xform_repaired_sum L Lpos zeta (-1)).
Qed.
Print Assumptions c13_ft_complete_is_fourier_sum.

(* the code as found computes the same for even lengths *)
Theorem c13_ft_complete_pinned_even : forall (R : StarRing) (L : nat) (zeta : R),
  L <> 0%nat -> Nat.even L = true -> pow zeta L = r1 R ->
  forall ifft, ifft_spec L zeta ifft ->
  forall (y : list R) (j : nat) d, length y = L -> (j < L)%nat ->
  nth j (ft_time ifft Pinned Complete d y) (r0 R) = rmul R d (csum L zeta 1 y j).
Proof.
  intros R L zeta Lpos He Hz ifft Hi y j d Hy Hj. rewrite (ft_time_complete_xform L) by exact Hy.
  apply (xform_pinned_even_sum L Lpos zeta 1); try assumption. now apply Lifft_is_dft.
Qed.
Print Assumptions c13_ft_complete_pinned_even.

(* transform, then inverse transform on the returned axis: the original values (repaired code, every length);
   c1 c2 L = 1 is the relation of the steps of conjugate axes (c13_conjugate_steps).  Both orders. *)
Theorem c13_roundtrip_complete : forall (R : StarRing) (L : nat) (zeta : R),
  L <> 0%nat -> pow zeta L = r1 R ->
  (forall a : Z, (a mod Z.of_nat L <> 0)%Z -> sum L (fun k => zpow L zeta (a * Z.of_nat k)) = r0 R) ->
  forall fft ifft, fft_spec L zeta fft -> ifft_spec L zeta ifft ->
  forall (y : list R) d dw itp, length y = L -> rmul R (rmul R d (rmul R dw itp)) (natR L) = r1 R ->
  ift_freq fft Repaired Complete dw itp (ft_time ifft Repaired Complete d y) = y /\
  ft_freq ifft Repaired Complete dw itp (ift_time fft Repaired Complete d y) = y.
Proof.
  intros R L zeta Lpos Hz orth fft ifft Hf Hi y d dw itp Hy Hc.
  pose proof (Lifft_is_dft L zeta ifft Hi) as HO. split.
  - rewrite (ft_time_complete_xform L) by exact Hy. rewrite ift_freq_complete_xform.
    apply (xform_roundtrip L Lpos zeta Hz orth 1); try assumption. now left.
  - rewrite ift_time_complete_xform.
    rewrite (ft_freq_complete_xform L).
    + apply (xform_roundtrip L Lpos zeta Hz orth (-1)); try assumption. now right.
    + unfold xform. rewrite map_length, fftshift_length.
      destruct (Hf (inner Repaired y)) as [Hl _]; [now rewrite inner_length|exact Hl].
Qed.
Print Assumptions c13_roundtrip_complete.

(* ---- transforms, upper-half axes (N values, transform length 2N) ---- *)
(* the transform is the direct Fourier sum of the Hermitian extension f(-t_n) = conj f(t_n), for either variant *)
Theorem c13_ft_upper_is_hermitian_fourier_sum : forall (R : StarRing) (N : nat) (zeta : R),
  N <> 0%nat -> pow zeta (2 * N) = r1 R ->
  forall ifft, ifft_spec (2 * N) zeta ifft ->
  forall v (y : list R) d (j : nat), length y = N -> (j < 2 * N)%nat ->
  nth j (ft_time ifft v UpperHalf d y) (r0 R) = rmul R d (hsum N zeta y j).
Proof. intros R N zeta Npos Hz ifft Hi v y d j Hy Hj. now apply ft_time_upper_sum. Qed.
Print Assumptions c13_ft_upper_is_hermitian_fourier_sum.

(* transform, then inverse transform on the returned upper-half frequency axis: the original values, all complex data *)
Theorem c13_roundtrip_upper : forall (R : StarRing) (N : nat) (zeta : R),
  N <> 0%nat -> pow zeta (2 * N) = r1 R ->
  (forall a : Z, (a mod Z.of_nat (2 * N) <> 0)%Z -> sum (2 * N) (fun k => zpow (2 * N) zeta (a * Z.of_nat k)) = r0 R) ->
  forall fft ifft, fft_spec (2 * N) zeta fft -> ifft_spec (2 * N) zeta ifft ->
  forall v1 v2 (y : list R) d dw itp, length y = N ->
  rmul R (rmul R d (rmul R dw itp)) (natR (2 * N)) = r1 R ->
  ift_freq fft v2 UpperHalf dw itp (ft_time ifft v1 UpperHalf d y) = y.
Proof.
  intros R N zeta Npos Hz orth fft ifft Hf Hi v1 v2 y d dw itp Hy Hc.
  now apply (upper_roundtrip N Npos zeta Hz orth).
Qed.
Print Assumptions c13_roundtrip_upper.

(* ---- the orthogonality hypothesis of the round trips, discharged ---- *)
(* In every ring without zero divisors in which zeta is a PRIMITIVE L-th root of unity the powers of zeta are orthogonal:
   the round-trip theorems assume nothing about exp(2 pi i / L) beyond "C is an integral domain and exp(2 pi i a / L) <> 1
   unless L divides a". *)
Theorem c13_orthogonality_from_primitive_root : forall (R : StarRing) (L : nat) (zeta : R),
  L <> 0%nat -> pow zeta L = r1 R ->
  (forall x y : R, rmul R x y = r0 R -> x = r0 R \/ y = r0 R) ->
  (forall a : Z, (a mod Z.of_nat L <> 0)%Z -> zpow L zeta a <> r1 R) ->
  forall a : Z, (a mod Z.of_nat L <> 0)%Z -> sum L (fun k => zpow L zeta (a * Z.of_nat k)) = r0 R.
Proof. intros R L zeta Lpos Hz Hdom Hprim. exact (orth_of_primitive L Lpos zeta Hz Hdom Hprim). Qed.
Print Assumptions c13_orthogonality_from_primitive_root.

Theorem c13_roundtrip_complete_in_domain : forall (R : StarRing) (L : nat) (zeta : R),
  L <> 0%nat -> pow zeta L = r1 R ->
  (forall x y : R, rmul R x y = r0 R -> x = r0 R \/ y = r0 R) ->
  (forall a : Z, (a mod Z.of_nat L <> 0)%Z -> zpow L zeta a <> r1 R) ->
  forall fft ifft, fft_spec L zeta fft -> ifft_spec L zeta ifft ->
  forall (y : list R) d dw itp, length y = L -> rmul R (rmul R d (rmul R dw itp)) (natR L) = r1 R ->
  ift_freq fft Repaired Complete dw itp (ft_time ifft Repaired Complete d y) = y /\
  ft_freq ifft Repaired Complete dw itp (ift_time fft Repaired Complete d y) = y.
Proof.
  intros R L zeta Lpos Hz Hdom Hprim. apply (c13_roundtrip_complete R L zeta Lpos Hz).
  exact (orth_of_primitive L Lpos zeta Hz Hdom Hprim).
Qed.
Print Assumptions c13_roundtrip_complete_in_domain.

Theorem c13_roundtrip_upper_in_domain : forall (R : StarRing) (N : nat) (zeta : R),
  N <> 0%nat -> pow zeta (2 * N) = r1 R ->
  (forall x y : R, rmul R x y = r0 R -> x = r0 R \/ y = r0 R) ->
  (forall a : Z, (a mod Z.of_nat (2 * N) <> 0)%Z -> zpow (2 * N) zeta a <> r1 R) ->
  forall fft ifft, fft_spec (2 * N) zeta fft -> ifft_spec (2 * N) zeta ifft ->
  forall v1 v2 (y : list R) d dw itp, length y = N ->
  rmul R (rmul R d (rmul R dw itp)) (natR (2 * N)) = r1 R ->
  ift_freq fft v2 UpperHalf dw itp (ft_time ifft v1 UpperHalf d y) = y.
Proof.
  intros R N zeta Npos Hz Hdom Hprim. apply (c13_roundtrip_upper R N zeta Npos Hz).
  assert (H2 : (2 * N)%nat <> 0%nat) by lia.
  exact (orth_of_primitive (2 * N) H2 zeta Hz Hdom Hprim).
Qed.
Print Assumptions c13_roundtrip_upper_in_domain.

(* non-vacuity: the Gaussian integers with zeta = i, L = 4 meet all four hypotheses *)
Example c13_example_gaussian_integers :
  pow (gi ZR) 4 = r1 GZ /\ (forall x y : GZ, rmul GZ x y = r0 GZ -> x = r0 GZ \/ y = r0 GZ) /\
  (forall a : Z, (a mod Z.of_nat 4 <> 0)%Z -> zpow 4 (gi ZR) a <> r1 GZ).
Proof. split; [exact gi_pow4|]. split; [exact gz_domain | exact gi_primitive]. Qed.

(* ---- the code as found, odd complete lengths ---- *)
(* length 3, ring Q(w) with w a primitive cube root of unity, oracles = the defining sums, f = (1, 0, 0), all
   hypotheses of the theorems above hold, and neither the Fourier-sum clause nor the round trip does *)
Theorem c13_odd_complete_refuted :
  exists (R : StarRing) (zeta : R) (fft ifft : list R -> list R) (y : list R) (d dw itp : R),
    pow zeta 3 = r1 R /\
    (forall a : Z, (a mod Z.of_nat 3 <> 0)%Z -> sum 3 (fun k => zpow 3 zeta (a * Z.of_nat k)) = r0 R) /\
    fft_spec 3 zeta fft /\ ifft_spec 3 zeta ifft /\ length y = 3%nat /\
    rmul R (rmul R d (rmul R dw itp)) (natR 3) = r1 R /\
    nth 0 (ft_time ifft Pinned Complete d y) (r0 R) <> rmul R d (csum 3 zeta 1 y 0) /\
    ift_freq fft Pinned Complete dw itp (ft_time ifft Pinned Complete d y) <> y.
Proof.
  exists EQ, w3, fft3, ifft3, y3, (r1 EQ), (r1 EQ), third.
  split; [exact w3_cubed|]. split; [exact orth3|]. split; [exact fft3_spec|]. split; [exact ifft3_spec|].
  split; [reflexivity|]. split; [exact scale3|]. split; [exact pinned3_not_sum|exact pinned3_no_roundtrip].
Qed.
Print Assumptions c13_odd_complete_refuted.

(* ---- the array programs of the code (skeletons instantiated from the source on every run, Proofs/C13gen.v) ---- *)
(* conjugate upper-half axes: the frequency axis has twice the points of the time axis (the array lengths the
   transforms work with: N values, transform length 2 N) *)
Theorem c13_conjugate_lengths : forall (K : Fld) (tp : K),
  (forall t w, freq_axis_of K tp t = Some w -> a_type t = UpperHalf -> a_len w = (2 * a_len t)%nat) /\
  (forall w t, time_axis_of K tp w = Some t -> a_type w = UpperHalf -> a_len w = (2 * a_len t)%nat).
Proof. exact conj_lengths. Qed.
Print Assumptions c13_conjugate_lengths.

(* point k of numpy.fft.fftshift(numpy.fft.fftfreq(n, d)) - arrays as the code builds them - is (k - n//2)/(n d),
   the grid the axis theorems are stated over *)
Theorem c13_shifted_fftfreq_grid : forall (K : Fld) (n : nat) (d : K) (k : nat), (k < n)%nat ->
  aget (arr_shift (arr_fftfreq n d)) k = fftfreq_shifted K n d k.
Proof. exact aget_shift_fftfreq. Qed.
Print Assumptions c13_shifted_fftfreq_grid.

(* the fill loop of the upper-half branches  yy = zeros(2N); yy[0:N] = y; for k in range(0, N-1): yy[2N-k-1] = conj(y[k+1])
   (bounds and indices as parameters, Python index semantics) computes the Hermitian extension the transform theorems use *)
Theorem c13_hermitian_fill_program : forall (R : StarRing) (N : nat) (y : list R) zl slo shi klo khi idx src,
  N <> 0%nat -> length y = N -> zl = (2 * N)%nat -> slo = 0%nat -> shi = N -> klo = 0%Z -> khi = (Z.of_nat N - 1)%Z ->
  (forall k, (0 <= k < Z.of_nat N - 1)%Z -> idx k = (2 * Z.of_nat N - k - 1)%Z) ->
  (forall k, (0 <= k < Z.of_nat N - 1)%Z -> src k = (k + 1)%Z) ->
  herm_skel zl slo shi klo khi idx src y = herm y.
Proof. exact (@herm_skel_is_model). Qed.
Print Assumptions c13_hermitian_fill_program.

(* ---- non-vacuity ---- *)
(* the rationals are a field of the required kind, and concrete axes go round *)
Open Scope Q_scope.
Example c13_example_axes :
  axis_agrees_tf 0 (44 # 7, (1 # 2, 5%nat, 1 # 4, false, 3 # 10),
                    Some ((3 # 10) - (2 # 1) * ((44 # 7) / (5 # 4)), 5%nat, (44 # 7) / (5 # 4), false, 1 # 1),
                    Some (1 # 2, 5%nat, 1 # 4, false, 3 # 10)) = true /\
  axis_agrees_tf 0 (44 # 7, (1 # 2, 3%nat, 1 # 4, true, 0),
                    Some (- ((44 # 7) * (2 # 1)), 6%nat, (44 # 7) * (2 # 3), true, 1 # 2),
                    Some (1 # 2, 3%nat, 1 # 4, true, 0)) = true.
Proof. split; vm_compute; reflexivity. Qed.

(* the oracle hypotheses are satisfiable: the defining sums themselves (here length 3 over Q(w)) *)
Example c13_example_oracles : fft_spec 3 w3 fft3 /\ ifft_spec 3 w3 ifft3.
Proof. split; [exact fft3_spec|exact ifft3_spec]. Qed.

Example c13_example_repaired_length3 :
  map (fun z => eq_eqb (fst z) (snd z))
      (combine (ift_freq fft3 Repaired Complete (r1 EQ) third (ft_time ifft3 Repaired Complete (r1 EQ) y3)) y3)
  = [true; true; true].
Proof. exact repaired3_roundtrip. Qed.

(* the fill program on concrete Gaussian integers: N = 3, the code's own bounds and indices *)
Example c13_example_fill :
  herm_skel (R := GZ) 6 0 3 0 2 (fun k => 6 - k - 1)%Z (fun k => k + 1)%Z [(1, 2); (3, 4); (5, -6)]%Z
  = [(1, 2); (3, 4); (5, -6); (0, 0); (5, 6); (3, -4)]%Z.
Proof. vm_compute. reflexivity. Qed.
