(* C17 — population (master-equation) dynamics conserve and match the exponential.
   Statements only; proofs in Proofs/C17.v, model in Model/C17.v.
   All statements hold over every commutative ring (hence over the rationals, which contain every
   float64 value) and for matrices of every size. *)
From Coq Require Import ZArith List Bool QArith Qcanon Lia.
From QV Require Import Base.Alg Base.Sums Base.Mat Base.Taylor Model.C17 Model.C17axis Proofs.C17 Proofs.C17gen.
Import ListNotations.

(* any history of set_rate calls (accepted or refused, any indices incl. negative and out of range)
   leaves every column sum as it was: zero for a matrix made by the constructor *)
Theorem c17_history_keeps_column_sums : forall (R : StarRing) n (A : @mat R) ops j, (j < n)%nat ->
  colsum n (history n A ops) j = colsum n A j.
Proof. intros R. exact (@history_colsum R). Qed.
Print Assumptions c17_history_keeps_column_sums.

(* every off-diagonal element holds the value assigned to it last, or its initial value *)
Theorem c17_offdiagonal_holds_last_assigned : forall (R : StarRing) n (A : @mat R) ops a b,
  (a < n)%nat -> (b < n)%nat -> a <> b ->
  history n A ops a b = last_assigned n (A a b) ops a b.
Proof. intros R. exact (@history_offdiag R). Qed.
Print Assumptions c17_offdiagonal_holds_last_assigned.

(* diagonal and out-of-range assignments are refused, and a refused call changes nothing *)
Theorem c17_inadmissible_refused_unchanged : forall (R : StarRing) n (A : @mat R),
  (forall N v, set_rate n A (N, N) v = None) /\
  (forall N M v, pyidx n N = None \/ pyidx n M = None -> set_rate n A (N, M) v = None) /\
  (forall op, raised n A op = true -> apply_op n A op = A).
Proof.
  intros R n A. split; [exact (diagonal_refused n A)|]. split; [exact (out_of_range_refused n A)|exact (refused_unchanged n A)].
Qed.
Print Assumptions c17_inadmissible_refused_unchanged.

(* the sum of populations is the same at every stored time, for every expansion order (any list of
   prefactors), every number of steps and every initial vector *)
Theorem c17_population_sum_conserved : forall (R : StarRing) n (K : @mat R) prefs nsteps p0,
  zero_colsums n K -> Forall (fun p => sum n p = sum n p0) (pop_traj n K prefs nsteps p0).
Proof. intros R. exact (@pop_sum_conserved R). Qed.
Print Assumptions c17_population_sum_conserved.

(* admissible step sizes: if the explicit Euler matrix 1 + dt K has no negative entry (off-diagonal rates
   non-negative and dt |K_ii| <= 1) then the order-4 step keeps populations non-negative. [nonneg] is any
   predicate with the closure properties of "0 <= x" in an ordered ring. *)
Theorem c17_populations_stay_nonnegative : forall (R : StarRing) (nonneg : R -> Prop),
  nonneg (r0 R) -> (forall x y, nonneg x -> nonneg y -> nonneg (radd R x y)) ->
  (forall x y, nonneg x -> nonneg y -> nonneg (rmul R x y)) ->
  (forall x, nonneg (radd R x x) -> nonneg x) -> (forall x, nonneg (radd R (radd R x x) x) -> nonneg x) ->
  forall n (K : @mat R) c1 c2 c3 c4,
  radd R c2 c2 = c1 -> radd R (radd R c3 c3) c3 = c1 -> radd R (radd R (radd R c4 c4) c4) c4 = c1 ->
  (forall i j, (i < n)%nat -> (j < n)%nat -> nonneg (radd R (delta i j) (rmul R c1 (K i j)))) ->
  forall nsteps p0, (forall i, (i < n)%nat -> nonneg (p0 i)) ->
  Forall (fun p => forall i, (i < n)%nat -> nonneg (p i)) (pop_traj n K [c1; c2; c3; c4] nsteps p0).
Proof.
  intros R nonneg nn0 nnadd nnmul nnh nnt n K c1 c2 c3 c4 H2 H3 H4 Hadm nsteps p0 H0.
  exact (pop_nonneg nonneg nn0 nnadd nnmul nnh nnt n K c1 c2 c3 c4 H2 H3 H4 Hadm nsteps p0 H0).
Qed.
Print Assumptions c17_populations_stay_nonnegative.

(* the order-4 loop computes the Taylor polynomial  p + dt K p + ... + dt^4/4! K^4 p *)
Theorem c17_step_is_taylor_polynomial : forall (R : StarRing) n (K : @mat R) c1 c2 c3 c4 p i, (i < n)%nat ->
  tstep (padd n) (pscale n) (pG n K) [c1; c2; c3; c4] p i =
  radd R (radd R (radd R (radd R (p i) (rmul R c1 (mv n K p i)))
    (rmul R (rmul R c2 c1) (mv n K (mv n K p) i)))
    (rmul R (rmul R c3 (rmul R c2 c1)) (mv n K (mv n K (mv n K p)) i)))
    (rmul R (rmul R c4 (rmul R c3 (rmul R c2 c1))) (mv n K (mv n K (mv n K (mv n K p))) i)).
Proof. intros R n K c1 c2 c3 c4 p i Hi. exact (tstep4_poly n K c1 c2 c3 c4 p i Hi). Qed.
Print Assumptions c17_step_is_taylor_polynomial.

(* the propagation matrix on a sub-axis is built from one (oracle) exponential E of the sub-axis step:
   identity first, one more factor E per point, and a start shifted by Ns steps is E^Ns ahead *)
Theorem c17_propagation_matrix_structure : forall (R : StarRing) n (E : @mat R) Ns i,
  meq n (prop_matrix n E 0 0) mid /\
  meq n (prop_matrix n E Ns (S i)) (mmul n E (prop_matrix n E Ns i)) /\
  meq n (prop_matrix n E Ns i) (prop_matrix n E 0 (i + Ns)).
Proof.
  intros R n E Ns i. split; [exact (prop_matrix_first n E)|]. split; [exact (prop_matrix_step n E Ns i)|exact (prop_matrix_shift n E Ns i)].
Qed.
Print Assumptions c17_propagation_matrix_structure.

(* non-vacuity: a concrete rate-matrix history over the integers and the premises of the
   non-negativity theorem over the rationals *)
Example c17_example_history :
  list_of_mat 3 (history (R:=ZR) 3 (mat_of (R:=ZR) [[0;0;0];[0;0;0];[0;0;0]]%Z) [((1,0), 5); ((1,0), 2); ((0,0), 7); ((2,1), 3); ((-1,0), 4)]%Z)
  = [[-6; 0; 0]; [2; -3; 0]; [4; 3; 0]]%Z.
Proof. vm_compute. reflexivity. Qed.

Example c17_example_nonneg_premises :
  let nonneg (x : QR) := Qle 0 (this x) in
  nonneg (r0 QR) /\ (forall x y, nonneg x -> nonneg y -> nonneg (radd QR x y)) /\
  (forall x y, nonneg x -> nonneg y -> nonneg (rmul QR x y)) /\
  (forall x, nonneg (radd QR x x) -> nonneg x) /\ (forall x, nonneg (radd QR (radd QR x x) x) -> nonneg x).
Proof.
  cbv zeta. cbn [r0 radd rmul QR car].
  assert (forall q : Q, this (Q2Qc q) == q)%Q as Hred by (intros; apply Qred_correct).
  split; [discriminate|]. split.
  - intros x y Hx Hy. unfold Qcplus. rewrite Hred. now apply Qplus_le_0_compat || (rewrite <- (Qplus_0_r 0); apply Qplus_le_compat; assumption).
  - split; [intros x y Hx Hy; unfold Qcmult; rewrite Hred; now apply Qmult_le_0_compat|].
    split; intros x; unfold Qcplus; rewrite ?Hred; destruct x as [[a b] Hc]; cbn [this]; unfold Qle, Qplus; cbn; nia.
Qed.

(* ---------------- glue (Model/C17axis.v; proofs in Proofs/C17gen.v) ---------------- *)

(* get_PropagationMatrix, all three ways of reaching the start of the sub-axis (same start; a whole number Ns of sub-axis steps, Ns being
   whatever round() returned; one extra exponential for the shift): if the oracle exponential ex(t) (= expm(K t)) is a one-parameter
   semigroup, the matrix stored at point i of the sub-axis is the exponential for the time elapsed since the start of the
   propagator's own axis, (sub_start - start) + i * sub_step *)
Theorem c17_propagation_matrix_is_exponential_of_elapsed_time : forall (R : StarRing) n (ex : Q -> @mat R),
  (forall s t, (s == t)%Q -> meq n (ex s) (ex t)) -> (forall s t, meq n (ex (s + t)%Q) (mmul n (ex s) (ex t))) -> meq n (ex 0%Q) mid ->
  forall (start sub_start sub_step : Q) (Ns : Z) (i : nat), (0 < sub_step)%Q -> (start <= sub_start)%Q ->
  meq n (prop_matrix_gen n (ex sub_step) (ex (pm_dt start sub_start)) (pm_shifted start sub_start)
                         (pm_whole start sub_start sub_step Ns) (Z.to_nat Ns) i)
        (ex (inject_Z (Z.of_nat i) * sub_step + (sub_start - start))%Q).
Proof. intros R n ex H1 H2 H3. exact (prop_matrix_is_exponential n ex H1 H2 H3). Qed.
Print Assumptions c17_propagation_matrix_is_exponential_of_elapsed_time.
Example c17_semigroup_hypotheses_inhabited : forall (R : StarRing) n, exists ex : Q -> @mat R,
  (forall s t, (s == t)%Q -> meq n (ex s) (ex t)) /\ (forall s t, meq n (ex (s + t)%Q) (mmul n (ex s) (ex t))) /\ meq n (ex 0%Q) mid.
Proof.
  intros R n. exists (fun _ => mid). split; [intros s t _ a b _ _; reflexivity|]. split; [|intros a b _ _; reflexivity].
  intros s t a b Ha Hb. symmetry. now apply mmul_id_l.
Qed.

(* the constructor: a dimension alone gives the zero matrix (zero column sums, the starting point of c17_history_keeps_column_sums);
   nothing given, a non-square matrix or a dimension that contradicts the data is refused *)
Theorem c17_constructor : forall (R : StarRing) n,
  (forall N, N <> 0%Z -> rm_ctor (Some N) None = CtorZeros N) /\ rm_ctor None None = CtorRaise /\ rm_ctor (Some 0%Z) None = CtorRaise /\
  (forall dim r c, r <> c -> rm_ctor dim (Some (r, c)) = CtorRaise) /\ (forall r, rm_ctor None (Some (r, r)) = CtorData r) /\
  (forall N r, N <> 0%Z -> N <> r -> rm_ctor (Some N) (Some (r, r)) = CtorRaise) /\
  zero_colsums n (@zero_mat R).
Proof.
  intros R n. destruct rm_ctor_spec as [H1 [H2 [H3 [H4 [H5 H6]]]]].
  split; [exact H1|]. split; [exact H2|]. split; [exact H3|]. split; [exact H4|]. split; [exact H5|]. split; [exact H6|exact (zero_mat_colsums n)].
Qed.
Print Assumptions c17_constructor.

(* the sub-axis guard of get_PropagationMatrix: if is_subset_of accepts (exact arithmetic; rnd is what round() returned for the ratio of the
   steps) then every point of the sub-axis is a point of the propagator's axis *)
Theorem c17_accepted_sub_axis_lies_on_the_axis : forall (rnd : Z) (sub ax : axis), is_subset_of rnd sub ax = true ->
  forall k, (k < (let '(_, l1, _) := sub in l1))%nat -> ax_mem (ax_point sub k) ax = true.
Proof. exact subset_points. Qed.
Print Assumptions c17_accepted_sub_axis_lies_on_the_axis.
Example c17_sub_axis_example : is_subset_of 2 (3 # 1, 5%nat, 2 # 1)%Q (1 # 1, 20%nat, 1 # 1)%Q = true /\ is_subset_of 2 (3 # 1, 5%nat, 2 # 1)%Q (1 # 1, 10%nat, 1 # 1)%Q = false.
Proof. split; vm_compute; reflexivity. Qed.
