(* C19 — two-dimensional response storage conserves what was added.
   Statements only; proofs in Proofs/C19.v, model in Model/C19.v. The data arrays are elements of
   an arbitrary commutative ring's additive group; [NoneTagRefused] is the repaired setter. *)
From Coq Require Import ZArith List Bool.
From QV Require Import Base.Alg Model.C19 Proofs.C19 Model.C19py Model.C19code Proofs.C19genA Proofs.C19genB Proofs.C19gen.
Import ListNotations.

(* For EVERY history of additions (any level, dtype, tag, accepted or refused), resolution changes
   (admissible or not) and reads, starting from a new object: whatever is readable at the end equals
   the sum of the accepted additions belonging to it. *)
Theorem c19_history_conservation : forall (R : StarRing) (ops : list (@op R)),
  let s := fst (run_log fresh ops []) in let log := snd (run_log fresh ops []) in
  init s = true ->
  (exists o, read (set_flag s DTot None) = RVal o /\ oget o = tsum log) /\
  (hi (res s) -> forall g, read (set_flag s (DS g) None) = RVal (Some (ssum g log))) /\
  (hi (res s) -> forall q, read (set_flag s (DQ q) None) = RVal (Some (qsum q log))) /\
  (res s = Signals -> forall g, exists o, read (set_flag s (DS g) None) = RVal o /\ oget o = ssum g log) /\
  (res s = Processes -> forall q, exists o, read (set_flag s (DQ q) None) = RVal o /\ oget o = qsum q log) /\
  (res s = Types -> forall p, exists o, read (set_flag s (DP p) None) = RVal o /\ oget o = psum p log) /\
  (res s = Pathways -> forall p, read (set_flag s (DP p) None) = RVal (Some (psum p log))).
Proof. intros R ops. exact (history_reads ops). Qed.
Print Assumptions c19_history_conservation.

(* the ghost log runs along the very history the model executes *)
Theorem c19_log_follows_run : forall (R : StarRing) (s : @st R) ops log,
  fst (run_log s ops log) = fst (run NoneTagRefused s ops).
Proof. intros R. exact (@run_log_state R). Qed.
Print Assumptions c19_log_follows_run.

(* one accepted addition changes every view by exactly the added data if the item belongs to it *)
Theorem c19_accepted_add : forall (R : StarRing) (s s' : @st R) data reso d t, wf s ->
  add_data NoneTagRefused s data reso d t = (s', true) -> deltas (base s reso) s' d data.
Proof. intros R. exact (@add_deltas R). Qed.
Print Assumptions c19_accepted_add.

(* inadmissible operations are refused without changing the stored data (both variants) *)
Theorem c19_refused_unchanged : forall (R : StarRing) vr (s s' : @st R),
  (forall data reso d t, add_data vr s data reso d t = (s', false) -> same_store s' (base s reso)) /\
  (forall new, set_resolution s new = (s', false) -> s' = s).
Proof. intros R vr s s'. split; [intros data reso d t; exact (add_refused vr s s' data reso d t)|exact (set_resolution_refused s s')]. Qed.
Print Assumptions c19_refused_unchanged.

(* an elementary reduction keeps every view that is still readable, and strictly lowers the level *)
Theorem c19_reduction_keeps_views : forall (R : StarRing) (s s' : @st R) new,
  init s = true -> attr s = true -> conv s new = Some s' ->
  views_kept s s' /\ res s' = new /\ init s' = true /\ attr s' = true /\ (lnum new < lnum (res s))%nat.
Proof. intros R. exact (@conv_kept R). Qed.
Print Assumptions c19_reduction_keeps_views.

(* reading is a projection of the store *)
Theorem c19_read_total_is_view : forall (R : StarRing) (s : @st R) t, init s = true -> attr s = true ->
  read (set_flag s DTot t) = RVal (Some (view_total s)) \/ (res s = Off /\ read (set_flag s DTot t) = RVal (tot s)).
Proof. intros R. exact (@read_total R). Qed.
Print Assumptions c19_read_total_is_view.

(* the pinned setter stores a type-level addition into a pathways store under tag None on top of the
   existing pathways: the total is a + (a + b) instead of a + b *)
Theorem c19_lower_resolution_add_refuted : exists ops : list (@op ZR),
  let '(s, outs) := run NoneTagStored fresh ops in
  forallb fst outs = true /\ view_total s <> 7%Z /\
  ops = [OAdd (3%Z : ZR) None (DP R1g) (Some 1%Z); OAdd (4%Z : ZR) (Some Types) (DP R1g) None].
Proof.
  exists [OAdd (3%Z : ZR) None (DP R1g) (Some 1%Z); OAdd (4%Z : ZR) (Some Types) (DP R1g) None].
  vm_compute. split; [reflexivity|]. split; [discriminate|reflexivity].
Qed.
Print Assumptions c19_lower_resolution_add_refuted.

(* non-vacuity: a concrete history with reductions, refused operations and reads *)
Example c19_example :
  let ops : list (@op ZR) :=
    [OAdd (3%Z : ZR) None (DP R1g) (Some 1%Z); OAdd (5%Z : ZR) None (DP R2g) (Some 1%Z);
     OAdd (7%Z : ZR) None (DP R1g) (Some 1%Z);            (* tag exists: refused *)
     OAdd (4%Z : ZR) (Some Types) (DP R1g) None;            (* lower level than the store: refused *)
     OSetRes (Some Signals); OAdd (11%Z : ZR) None (DS REPH) None; OSetRes (Some Types) (* refused *);
     ORead DTot None false] in
  let '(s, outs) := run NoneTagRefused fresh ops in
  map fst outs = [true; true; false; false; true; true; false; true] /\
  view_total s = 19%Z /\ view_signal s REPH = 16%Z /\ view_signal s NONR = 3%Z /\ res s = Signals.
Proof. vm_compute. repeat split. Qed.

(* ---- the code itself (static tie) ----
   Model/C19code.v is the storage code of twod2.py (tables, _resolution2number, the eight reduction helpers, getter and
   setter of twodspectrum_dictionary, set_data_flag, _convert_res_elementary, _convert_resolution, set_resolution,
   _add_data, the fields set by __init__) transcribed node by node into the Python-fragment semantics of Model/C19py.v;
   on every run harness/translate_c19.py transcribes the current source again and proves it equal to that text.
   For EVERY history: executing the transcribed code on a new object shows, operation by operation (accepted / refused,
   value read / exception), exactly what the model's [run] shows, and ends in the object [conc s] that represents the
   model's final state.  So the theorems above, which are about [run], are about the code. *)
Theorem c19_code_refines_model : forall (R : StarRing) (ops : list (@op R)),
  match new_obj code_new_fields dummy with
  | Some o => code_run o ops
  | None => None
  end = Some (conc (fst (run NoneTagRefused fresh ops)), snd (run NoneTagRefused fresh ops)).
Proof. intros R. exact (@code_refines_model R). Qed.
Print Assumptions c19_code_refines_model.

(* every reachable model state satisfies the invariant under which the single calls refine the model: an initialised
   store has its dictionary, tags are unique within a pathway type, an uninitialised store with a dictionary is not at
   pathway level and (at type level) has all eight types *)
Theorem c19_reachable_invariant : forall (R : StarRing) (ops : list (@op R)), Inv (fst (run NoneTagRefused fresh ops)).
Proof. intros R ops. exact (Inv_run ops fresh Inv_fresh). Qed.
Print Assumptions c19_reachable_invariant.

(* a store that was never initialised (only resolution changes so far) holds nothing but zero arrays: the one place
   where the code adds in place into an array that may be a stored one (_types_to_processes / _types_to_signals on an
   uninitialised store) therefore adds zeros *)
Theorem c19_uninitialised_store_is_zero : forall (R : StarRing) (ops : list (@op R)), Zst (fst (run NoneTagRefused fresh ops)).
Proof. intros R. exact (@uninitialised_store_is_zero R). Qed.
Print Assumptions c19_uninitialised_store_is_zero.

(* non-vacuity: the transcribed code executed on a concrete history (additions, a refused re-used tag, a refused
   lower-level addition, reads, reductions, a refused increase) *)
Example c19_code_example :
  let ops : list (@op ZR) :=
    [OAdd (3%Z : ZR) None (DP R1g) (Some 1%Z); OAdd (5%Z : ZR) None (DP R2g) (Some 1%Z);
     OAdd (7%Z : ZR) None (DP R1g) (Some 1%Z); OAdd (4%Z : ZR) (Some Types) (DP R1g) None;
     ORead (DQ GSB) None false; ORead (DP R1g) (Some 1%Z) true;
     OSetRes (Some Signals); OAdd (11%Z : ZR) None (DS REPH) None; OSetRes (Some Types); ORead DTot None false] in
  match new_obj code_new_fields dummy with
  | Some o => option_map snd (code_run o ops)
  | None => None
  end = Some [(true, @RErr ZR); (true, RErr); (false, RErr); (false, RErr); (true, @RVal ZR (Some 8%Z)); (true, @RVal ZR (Some 3%Z));
              (true, RErr); (true, RErr); (false, RErr); (true, @RVal ZR (Some 19%Z))].
Proof. vm_compute. reflexivity. Qed.
