(* C02 — propagated density matrices stay valid states and follow the generator.
   Statements only; proofs in Proofs/C02.v, models in Model/C02.v (+ Base/Taylor.v, Base/TaylorG.v).
   Over any commutative ring with conjugation and imaginary unit im (cj im = -im), every dimension. The exact
   clauses are proved; positive semidefiniteness and agreement with the exact exponential "within the truncation
   bound" are validated numerically by the harness (the operator-norm remainder estimate is not mechanised). *)
From Coq Require Import ZArith List Bool Arith QArith.
From Coq Require Import Qcanon.
From QV Require Import Base.Alg Base.Sums Base.Mat Base.Tens Base.Taylor Base.TaylorG Model.C01 Model.C02 Model.C02glue Proofs.C01 Proofs.C07 Proofs.C02 Proofs.C02gen.
Import ListNotations.

(* trace: whatever sequence of generators (one per refined step: time-dependent tensors) annihilates the trace and
   whatever maps applied after refined steps keep it - every stored state has the trace of rho0; for every
   expansion order (any prefactor list), refinement factor and number of steps *)
Theorem c02_trace_conserved : forall (R : StarRing) n (G D : nat -> @mat R -> @mat R) prefs nsteps nref rho0,
  (forall j c x, mtr n (dm_scale n c (G j x)) = r0 R) -> (forall j x, mtr n (D j x) = mtr n x) ->
  Forall (fun rho => mtr n rho = mtr n rho0) (dm_traj n G D prefs nsteps nref rho0).
Proof. intros R n. exact (dm_traj_trace n). Qed.
Print Assumptions c02_trace_conserved.

(* the generators the code uses do annihilate the trace: tensor form (any tensor with sum_a R[a,a,c,d] = 0, i.e.
   C01), operator form (unconditionally), pure dephasing multipliers with unit diagonal *)
Theorem c02_generators_traceless : forall (R : StarRing) (im : R) n c (H : @mat R) (Rt : @tens R) Nb (Km Lm Ld : nat -> @mat R) (E rho : @mat R),
  (trace_pres n Rt -> mtr n (dm_scale n c (G_tensor im n H Rt rho)) = r0 R) /\
  mtr n (dm_scale n c (G_ops im n H Nb Km Lm Ld rho)) = r0 R /\
  ((forall i, (i < n)%nat -> E i i = r1 R) -> mtr n (dephase n E rho) = mtr n rho).
Proof.
  intros R im n c H Rt Nb Km Lm Ld E rho. split; [apply mtr_scaled_G_tensor|]. split; [apply mtr_scaled_G_ops|apply mtr_dephase].
Qed.
Print Assumptions c02_generators_traceless.

(* Hermiticity: real prefactors (dt/l), generators and dephasing maps that map Hermitian matrices to Hermitian ones *)
Theorem c02_hermiticity_kept : forall (R : StarRing) n (G D : nat -> @mat R -> @mat R) prefs nsteps nref rho0,
  (forall j c x, is_real R c -> herm n x -> herm n (dm_scale n c (G j x))) -> (forall j x, herm n x -> herm n (D j x)) ->
  Forall (is_real R) prefs -> herm n rho0 ->
  Forall (herm n) (dm_traj n G D prefs nsteps nref rho0).
Proof. intros R n. exact (dm_traj_herm n). Qed.
Print Assumptions c02_hermiticity_kept.

Theorem c02_generators_keep_hermiticity : forall (R : StarRing) (im : R), cj R im = ropp R im ->
  forall n c (H : @mat R) (Rt : @tens R) Nb (Km Lm Ld : nat -> @mat R) (E rho : @mat R),
  is_real R c -> herm n H -> herm n rho ->
  (herm_pres n Rt -> herm n (dm_scale n c (G_tensor im n H Rt rho))) /\
  ((forall m, (m < Nb)%nat -> real_mat n (Km m)) -> (forall m, (m < Nb)%nat -> dagger_of n (Ld m) (Lm m)) ->
     herm n (dm_scale n c (G_ops im n H Nb Km Lm Ld rho))) /\
  (herm n E -> herm n (dephase n E rho)).
Proof.
  intros R im Him n c H Rt Nb Km Lm Ld E rho Hc HH Hr. split; [intros HT; now apply herm_scaled_G_tensor|].
  split; [intros HK HL; now apply herm_scaled_G_ops|intros HE; now apply herm_dephase].
Qed.
Print Assumptions c02_generators_keep_hermiticity.

(* rotating-wave frame: the conversion with unimodular phases keeps Hermiticity, trace and populations, is undone
   by the conjugate phases, and - for the repaired, elementwise state-vector conversion - commutes with forming
   the density matrix of a state vector; the RWA Hamiltonian stays Hermitian *)
Theorem c02_rwa_conversion : forall (R : StarRing) n (u psi : @vec R) (rho H : @mat R) (Om : @vec R),
  (herm n rho -> herm n (rwa_dm u rho)) /\
  ((forall i, (i < n)%nat -> rmul R (u i) (cj R (u i)) = r1 R) ->
     mtr n (rwa_dm u rho) = mtr n rho /\ meq n (rwa_dm (fun i => cj R (u i)) (rwa_dm u rho)) rho /\
     (forall i, (i < n)%nat -> rwa_dm u rho i i = rho i i)) /\
  meq n (dm_of (rwa_sv n SvRepaired u psi)) (rwa_dm u (dm_of psi)) /\
  (herm n H -> (forall i, (i < n)%nat -> is_real R (Om i)) -> herm n (rwa_ham H Om)).
Proof.
  intros R n u psi rho H Om. split; [apply rwa_dm_herm|]. split.
  - intros Hu. split; [now apply rwa_dm_trace|]. split; [now apply rwa_dm_roundtrip|]. intros i Hi. apply (rwa_dm_populations n u rho i Hi), Hu, Hi.
  - split; [apply rwa_sv_consistent|apply rwa_ham_herm].
Qed.
Print Assumptions c02_rwa_conversion.

(* the pinned state-vector conversion (numpy.dot of the phase vector with the state) puts amplitude into an empty
   state; repaired by a fix: commit *)
Theorem c02_pinned_sv_rwa_refuted :
  rwa_sv 2 SvPinned sv_u_demo sv_psi_demo 1%nat = (0,1)%Z /\
  rwa_sv 2 SvRepaired sv_u_demo sv_psi_demo 1%nat = (0,0)%Z /\
  rwa_sv 2 SvRepaired sv_u_demo sv_psi_demo 0%nat = (0,1)%Z.
Proof. exact sv_rwa_pinned_witness. Qed.
Print Assumptions c02_pinned_sv_rwa_refuted.

(* closed systems: unitarity defect of the order-L step as a polynomial identity.  For X = -i H dt (H Hermitian)
   T_L(X)^+ T_L(X) = T_L(-X) T_L(X) = 1 + O(X^(L+2)) with exactly these coefficients: the a-priori bound on the
   drift of norm, purity and energy per refined step, with no reference to the exponential function *)
Theorem c02_unitarity_defect : forall x : Q,
  T2 x * T2 (-x) == 1 + pw x 4 / 4 /\
  T4 x * T4 (-x) == 1 + pw x 6 / 72 + pw x 8 / 576 /\
  T6 x * T6 (-x) == 1 + pw x 8 / 2880 + pw x 10 / 21600 + pw x 12 / 518400.
Proof. intros x. split; [apply unitarity_defect_2|]. split; [apply unitarity_defect_4|apply unitarity_defect_6]. Qed.
Print Assumptions c02_unitarity_defect.

(* ---------------- glue around the kernels (Model/C02glue.v; proofs in Proofs/C02gen.v) ---------------- *)

(* Hamiltonian.set_rwa: with increasing block starts every state of a block gets the mean of the diagonal over that block
   (inv k stands for 1/float(k)) - so the rotating frame is the same for all states of one excitation block *)
Theorem c02_rwa_energies_are_block_means : forall (R : StarRing) (inv : nat -> R) (diag : @vec R) (idx : nat -> nat) nblocks dim b ii,
  (forall b, (S b < nblocks)%nat -> (idx b <= idx (S b))%nat) -> (b < nblocks)%nat -> in_block idx nblocks dim b ii ->
  rwa_energies inv diag idx nblocks dim ii = block_mean inv diag (idx b) (block_upper idx nblocks dim b).
Proof. intros R inv diag idx nblocks dim b ii. exact (rwa_energies_block inv diag idx nblocks dim b ii). Qed.
Print Assumptions c02_rwa_energies_are_block_means.

(* convert_to_RWA followed by convert_from_RWA (unimodular phases, conjugate ones on the way in) restores every stored state
   and the flag; convert_from_RWA on an evolution that is not in the rotating frame does nothing, and so does a second one *)
Theorem c02_frame_conversion_machine : forall (R : StarRing) n (u psi : @vec R) (rho : @mat R),
  conv_from_dm false 1 u rho = (false, rho) /\ conv_to_dm true u rho = (true, rho) /\
  (forall f, conv_from_dm (fst (conv_from_dm f 1 u rho)) 1 u (snd (conv_from_dm f 1 u rho)) = (false, snd (conv_from_dm f 1 u rho))) /\
  ((forall i, (i < n)%nat -> rmul R (u i) (cj R (u i)) = r1 R) ->
     (let s := conv_to_dm false (fun k => cj R (u k)) rho in
      fst s = true /\ fst (conv_from_dm (fst s) 1 u (snd s)) = false /\ meq n (snd (conv_from_dm (fst s) 1 u (snd s))) rho) /\
     (let s := conv_to_sv n false (fun k => cj R (u k)) psi in
      fst s = true /\ fst (conv_from_sv n (fst s) 1 u (snd s)) = false /\ veq n (snd (conv_from_sv n (fst s) 1 u (snd s))) psi)).
Proof.
  intros R n u psi rho. split; [apply conv_from_idle|]. split; [apply conv_to_idle|]. split; [intros f; apply conv_from_twice|].
  intros Hu. split; [exact (conv_roundtrip_dm n u rho Hu)|exact (conv_roundtrip_sv n u psi Hu)].
Qed.
Print Assumptions c02_frame_conversion_machine.

(* pure dephasing: the multipliers applied after the refined steps that start at t 0, t 0 + dt, ... accumulate to the exact decay
   between t 0 and t k - exp(-gamma (t_k - t_0)) for Lorentzian, exp(-gamma (t_k^2 - t_0^2)/2) for Gaussian dephasing - for any
   function ex with ex(a+b) = ex a ex b and ex 0 = 1 (numpy.exp) and half = 1/2 *)
Theorem c02_dephasing_accumulates_exact_decay : forall (R : StarRing) (ex : R -> R) (half : R),
  (forall a b, ex (radd R a b) = rmul R (ex a) (ex b)) -> ex (r0 R) = r1 R -> radd R half half = r1 R ->
  forall (gam : @mat R) dt (t : nat -> R) k i j, (forall m, t (S m) = radd R (t m) dt) ->
  deph_acc ex half Lorentzian gam dt t k i j = ex (ropp R (rmul R (gam i j) (rsub R (t k) (t 0%nat)))) /\
  deph_acc ex half Gaussian gam dt t k i j = ex (ropp R (rsub R (gsq half (gam i j) (t k)) (gsq half (gam i j) (t 0%nat)))).
Proof.
  intros R ex half H1 H2 H3 gam dt t k i j Ht. split; [exact (deph_acc_lorentzian ex half H1 H2 gam dt t k i j Ht)|exact (deph_acc_gaussian ex half H1 H2 H3 gam dt t k i j Ht)].
Qed.
Print Assumptions c02_dephasing_accumulates_exact_decay.
Example c02_dephasing_hypotheses_inhabited : exists (ex : QR -> QR) (half : QR),
  (forall a b, ex (radd QR a b) = rmul QR (ex a) (ex b)) /\ ex (r0 QR) = r1 QR /\ radd QR half half = r1 QR.
Proof. exists (fun _ => r1 QR), (Q2Qc (1 # 2)). split; [intros; apply Qc_is_canon; reflexivity|]. split; [reflexivity|apply Qc_is_canon; reflexivity]. Qed.

(* propagate: the method string selects the expansion order only (4, 2, 4, 6; anything else is refused), the options select the loop
   nest only; a per-call refinement Nref = k > 1 is seen by that call as (k, Odt/k) and leaves (Nref, dt) as they were *)
Theorem c02_method_selects_order_only : forall a b c d e,
  dispatch a b c d e MShort = Some (target_of a b c d e, 4%Z) /\ dispatch a b c d e MShort2 = Some (target_of a b c d e, 2%Z) /\
  dispatch a b c d e MShort4 = Some (target_of a b c d e, 4%Z) /\ dispatch a b c d e MShort6 = Some (target_of a b c d e, 6%Z) /\
  dispatch a b c d e MOther = None /\
  target_of false b false false false = THam /\ target_of true false false false false = TRelax /\ target_of true true false false false = TTDRelax.
Proof. exact dispatch_spec. Qed.
Print Assumptions c02_method_selects_order_only.

Theorem c02_per_call_refinement_restores : forall (R : StarRing) (st : Z * R) (Odt : R) (inv : Z -> R) (k : Z),
  snd (percall st Odt inv k) = st /\
  ((1 < k)%Z -> fst (percall st Odt inv k) = (k, rmul R Odt (inv k))) /\ ((k <= 1)%Z -> fst (percall st Odt inv k) = st).
Proof. intros R. exact (@percall_spec R). Qed.
Print Assumptions c02_per_call_refinement_restores.
