(* C08 — the evolution superoperator is an identity-started semigroup matching propagation.
   Statements only; proofs in Proofs/C08.v (+ Proofs/TensAlg.v), model in Model/C08.v.
   Over any commutative ring with conjugation, every dimension, every time grid length Nt, dense-step setting
   Ndense >= 1, expansion order (prefactor list) and number of incremental steps.  [step] is one dense step of
   the density-matrix propagator for a generator G (with an optional map Dm applied after it), as in Model/C02.v. *)
From Coq Require Import ZArith List Bool Arith.
From Coq Require Import QArith.
From QV Require Import Base.Alg Base.Sums Base.Mat Base.Tens Base.TensId Base.Taylor Base.TaylorG Model.C01 Model.C02 Model.C08
     Model.C08obj Proofs.TensAlg Proofs.C02 Proofs.C08 Proofs.C08objgen.
Import ListNotations.

(* data[i] is the i-th power of Udt: the identity at time zero, and U(t_i + t_j) = U(t_i) U(t_j) on the grid *)
Theorem c08_identity_started_semigroup : forall (R : StarRing) n Nt (Udt : @tens R),
  (forall i, (i < Nt)%nat -> teq n (nth i (calc_all n Nt Udt) (@tid R)) (tpower n i Udt)) /\
  (forall i j, teq n (tpower n (i + j) Udt) (tcomp n (tpower n i Udt) (tpower n j Udt))) /\
  tpower n 0 Udt = @tid R /\ length (calc_all n Nt Udt) = Nt.
Proof.
  intros R n Nt Udt. split; [intros i Hi; now apply calc_all_nth|]. split; [intros i j; apply tpower_add|].
  split; [reflexivity|apply calc_all_length].
Qed.
Print Assumptions c08_identity_started_semigroup.

(* Udt, built by Ndense-1 contractions of the elementary tensor with itself, is its Ndense-th power *)
Theorem c08_dense_step_is_power : forall (R : StarRing) n Ndense (U1 : @tens R), (1 <= Ndense)%nat ->
  teq n (one_step_dense n Ndense U1) (tpower n Ndense U1).
Proof. intros R n. exact (one_step_dense_spec n). Qed.
Print Assumptions c08_dense_step_is_power.

(* step by step (mode "jit") gives the same values as all at once, after any number of calls *)
Theorem c08_incremental_eq_all_at_once : forall (R : StarRing) n k (Udt : @tens R),
  fst (jit_run n k Udt) = k /\ teq n (snd (jit_run n k Udt)) (tpower n k Udt).
Proof. intros R n. exact (jit_run_spec n). Qed.
Print Assumptions c08_incremental_eq_all_at_once.

(* applied to ANY state, the superoperator at grid index i reproduces direct propagation of that state over
   i * Ndense dense steps; the generator G only has to be linear in the sense of being given by some tensor Lg *)
Theorem c08_reproduces_direct_propagation : forall (R : StarRing) n (G : @mat R -> @mat R) (Lg : @tens R)
  (Dm : @mat R -> @mat R) (Dt : @tens R),
  (forall x x', meq n x x' -> meq n (G x) (G x')) -> (forall x, meq n (G x) (tapply n Lg x)) ->
  (forall x x', meq n x x' -> meq n (Dm x) (Dm x')) -> (forall x, meq n (Dm x) (tapply n Dt x)) ->
  forall prefs Ndense Nt i (rho : @mat R), (1 <= Ndense)%nat -> (i < Nt)%nat ->
  meq n (tapply n (nth i (calc_all n Nt (one_step_dense n Ndense (elemental n (step n G Dm prefs)))) (@tid R)) rho)
        (iter i (iter Ndense (step n G Dm prefs)) rho).
Proof.
  intros R n G Lg Dm Dt H1 H2 H3 H4 prefs Ndense Nt i rho.
  exact (superoperator_reproduces_propagation n G Lg Dm Dt H1 H2 H3 H4 prefs Ndense Nt i rho).
Qed.
Print Assumptions c08_reproduces_direct_propagation.

(* at every grid time the superoperator preserves the trace (sum_a U[a,a,c,d] = delta_cd) and commutes with
   Hermitian conjugation, provided the generator annihilates traces and commutes with the dagger (C01/C02) *)
Theorem c08_trace_and_hermiticity : forall (R : StarRing) n (G : @mat R -> @mat R) (Lg : @tens R)
  (Dm : @mat R -> @mat R) (Dt : @tens R),
  (forall x x', meq n x x' -> meq n (G x) (G x')) -> (forall x, meq n (G x) (tapply n Lg x)) ->
  (forall x x', meq n x x' -> meq n (Dm x) (Dm x')) -> (forall x, meq n (Dm x) (tapply n Dt x)) ->
  forall prefs,
  (forall c x, mtr n (dm_scale n c (G x)) = r0 R) -> (forall x, mtr n (Dm x) = mtr n x) ->
  (forall x, meq n (G (mdag x)) (mdag (G x))) -> (forall x, meq n (Dm (mdag x)) (mdag (Dm x))) ->
  Forall (is_real R) prefs ->
  forall Ndense Nt i, (1 <= Ndense)%nat -> (i < Nt)%nat ->
  trace_keep n (nth i (calc_all n Nt (one_step_dense n Ndense (elemental n (step n G Dm prefs)))) (@tid R)) /\
  herm_pres n (nth i (calc_all n Nt (one_step_dense n Ndense (elemental n (step n G Dm prefs)))) (@tid R)).
Proof.
  intros R n G Lg Dm Dt H1 H2 H3 H4 prefs H5 H6 H7 H8 H9 Ndense Nt i Hd Hi.
  exact (superoperator_trace_herm n G Lg Dm Dt H1 H2 H3 H4 prefs H5 H6 H7 H8 H9 Ndense Nt i Hd Hi).
Qed.
Print Assumptions c08_trace_and_hermiticity.

(* the generator the code uses, -i[H,.] + R with H Hermitian and R as in C01, and Lorentzian pure dephasing with a
   Hermitian multiplier matrix of unit diagonal, satisfy every hypothesis above *)
Theorem c08_concrete_generator_qualifies : forall (R : StarRing) (im : R), cj R im = ropp R im ->
  forall n (H : @mat R) (Rt : @tens R) (E : @mat R),
  (forall x x', meq n x x' -> meq n (G_tensor im n H Rt x) (G_tensor im n H Rt x')) /\
  (forall x, meq n (G_tensor im n H Rt x) (tapply n (tadd (ham_tens im H) Rt) x)) /\
  (forall x x', meq n x x' -> meq n (dephase n E x) (dephase n E x')) /\
  (forall x, meq n (dephase n E x) (tapply n (deph_tens E) x)) /\
  (trace_pres n Rt -> forall c x, mtr n (dm_scale n c (G_tensor im n H Rt x)) = r0 R) /\
  ((forall i, (i < n)%nat -> E i i = r1 R) -> forall x, mtr n (dephase n E x) = mtr n x) /\
  (herm n H -> herm_pres n Rt -> forall x, meq n (G_tensor im n H Rt (mdag x)) (mdag (G_tensor im n H Rt x))) /\
  (herm n E -> forall x, meq n (dephase n E (mdag x)) (mdag (dephase n E x))).
Proof.
  intros R im Him n H Rt E.
  split; [intros x x'; apply G_tensor_ext|]. split; [intros x; apply G_tensor_spec|].
  split; [intros x x'; apply dephase_ext|]. split; [intros x; apply deph_tens_spec|].
  split; [intros HT c x; now apply mtr_scaled_G_tensor|]. split; [intros HE x; now apply mtr_dephase|].
  split; [intros HH HT x; now apply G_tensor_dag|intros HE x; now apply dephase_dag].
Qed.
Print Assumptions c08_concrete_generator_qualifies.

(* ---------------- bookkeeping of the object (Model/C08obj.v; proofs in Proofs/C08objgen.v) ---------------- *)

(* incremental mode with save=True: after k calls the counter is k, the table holds at every index 1..k exactly the value the
   in-place mode has after that many calls (hence, by c08_incremental_eq_all_at_once, the j-th power), the identity at 0 and
   the untouched initial zeros beyond k *)
Theorem c08_saved_incremental_table : forall (R : StarRing) n (Udt : @tens R) k,
  fst (jit_run_save n k Udt) = k /\
  (forall j, (1 <= j <= k)%nat -> snd (jit_run_save n k Udt) j = snd (jit_run n j Udt)) /\
  snd (jit_run_save n k Udt) 0%nat = tid /\
  (forall j, (k < j)%nat -> snd (jit_run_save n k Udt) j = init_table j).
Proof. intros R n. exact (jit_run_save_spec n). Qed.
Print Assumptions c08_saved_incremental_table.

(* apply over an axis is apply at each of its indices *)
Theorem c08_apply_over_axis_pointwise : forall (R : StarRing) n (data : nat -> @tens R) len rho j, (j < len)%nat ->
  nth j (apply_axis n data len rho) (fun _ _ => r0 R) = tapply n (data j) rho.
Proof. intros R n. exact (apply_axis_nth n). Qed.
Print Assumptions c08_apply_over_axis_pointwise.

(* apply(t, .) and at(t) address the grid through TimeAxis.locate: in exact arithmetic a grid time t_i, and every time of the
   half-open interval [t_i, t_i + step), is located at index i *)
Theorem c08_grid_time_located_at_its_index : forall (start step : Q) (length i : nat), (0 < step)%Q -> (i < length)%nat ->
  locate start step length (start + inject_Z (Z.of_nat i) * step)%Q = Some i /\
  (forall x : Q, (0 <= x)%Q -> (x < step)%Q -> locate start step length (start + inject_Z (Z.of_nat i) * step + x)%Q = Some i).
Proof. intros start step length i Hs Hi. split; [exact (locate_grid start step length i Hs Hi)|exact (fun x => locate_interval start step length i x Hs Hi)]. Qed.
Print Assumptions c08_grid_time_located_at_its_index.

(* set_dense_dt(N): the dense axis has N+1 points and N of its steps make one step of the time grid *)
Theorem c08_dense_axis_covers_one_step : forall (step : Q) (N : nat), (1 <= N)%nat ->
  fst (dense_axis step N) = S N /\ (snd (dense_axis step N) * inject_Z (Z.of_nat N) == step)%Q.
Proof. exact dense_axis_covers. Qed.
Print Assumptions c08_dense_axis_covers_one_step.

(* re-use of one object: whatever calculate / set_dense_dt / apply / at calls came before, set_dense_dt(N) followed by calculate()
   leaves the same data (and RWA flag) as on the fresh object - for every semantics of the operations that reads and writes
   only the fields the model lists for them (this is what the static tie establishes for the current source) *)
Theorem c08_reuse_equals_fresh : forall (V : Type) (sem : op -> ostate V -> ostate V),
  (forall o, respects V (sem o) (op_reads o) (op_writes o)) ->
  forall (h : list op) (N : nat) (s : ostate V),
  agree V [FData; FInRwa] (sem OCalculate (sem (OSetDense N) (run V sem h s))) (sem OCalculate (sem (OSetDense N) s)).
Proof. exact reuse_equals_fresh. Qed.
Print Assumptions c08_reuse_equals_fresh.

(* non-vacuity: a semantics that respects the effect signatures and in which the data do depend on the dense setting *)
Definition toy_sem (o : op) (s : ostate nat) : ostate nat :=
  match o with
  | OCalculate => fun f => match f with FData => (s FDenseTime + s FHam)%nat | FInRwa => s FHam | _ => s f end
  | OSetDense N => fun f => match f with FDenseTime => (N + s FTime)%nat | _ => s f end
  | OApply => s
  | OAt => s
  end.
Example c08_reuse_hypothesis_inhabited :
  (forall o, respects nat (toy_sem o) (op_reads o) (op_writes o)) /\
  toy_sem OCalculate (toy_sem (OSetDense 2) (fun _ => 0%nat)) FData <> toy_sem OCalculate (toy_sem (OSetDense 3) (fun _ => 0%nat)) FData.
Proof.
  split; [|cbn; discriminate].
  intros o; split.
  - intros s f Hf. destruct o; cbn in *; destruct f; try reflexivity; exfalso; apply Hf; tauto.
  - intros s s' Ha f Hf. destruct o; cbn in Hf.
    + destruct Hf as [<-|[<-|[]]]; cbn; rewrite ?(Ha FDenseTime), ?(Ha FHam) by (cbn; tauto); reflexivity.
    + destruct Hf as [<-|[]]. cbn. rewrite (Ha FTime) by (cbn; tauto). reflexivity.
    + destruct Hf.
    + destruct Hf.
Qed.
