(* C04 — basis-change contexts are transparent and self-restoring.
   Statements only; proofs in Proofs/C04.v (bookkeeping state machine over an abstract group action)
   and Proofs/Tensor.v (the concrete per-class actions S1.A.S and the two-pass tensor transformation).
   Model in Model/C04.v (executable instance Model/C04x.v is what the correspondence check runs). *)
From Coq Require Import ZArith List Bool Arith.
From QV Require Import Base.Alg Base.Sums Base.Mat Base.Tens Base.Group Model.C04 Proofs.C04 Proofs.Tensor Proofs.C04gen.
Import ListNotations.

(* EVERY program (creation, reads, writes, protection, apply-with-copy, arbitrarily nested contexts,
   exceptions anywhere, handlers) run outside every context ends with the bookkeeping restored, no
   object left with a stale tag, and every unprotected object the program did not itself overwrite
   back in exactly its original representation.  G is any group of basis changes acting on the data. *)
Theorem c04_contexts_restore : forall (G X : Type) (gid : G) (gmul : G -> G -> G) (ginv : G -> G)
  (act : G -> X -> X) (app : X -> X -> X),
  (forall a b c, gmul a (gmul b c) = gmul (gmul a b) c) -> (forall a, gmul gid a = a) -> (forall a, gmul a gid = a) ->
  (forall a, gmul a (ginv a) = gid) -> (forall a, gmul (ginv a) a = gid) ->
  (forall x, act gid x = x) -> (forall g h x, act (gmul g h) x = act h (act g x)) ->
  forall (p : prog G X) (s : mst G X), repaired G X p = true -> Inv G X s -> trans G X s = [] ->
  let '(s', r, obs) := exec G X gid gmul ginv act app p s in
  trans G X s' = [] /\ reg G X s' = [] /\
  (forall j o', heap G X s' j = Some o' -> tag X o' = 0%nat) /\
  (forall j o, ~ In j (writes G X p) -> heap G X s j = Some o -> prot X o = false ->
     exists o', heap G X s' j = Some o' /\ dat X o' = dat X o /\ tag X o' = 0%nat /\ prot X o' = false).
Proof.
  intros G X gid gmul ginv act app A1 A2 A3 A4 A5 A6 A7 p s.
  exact (top_level_restores G X gid gmul ginv act app A1 A2 A3 A4 A5 A6 A7 p s).
Qed.
Print Assumptions c04_contexts_restore.

(* at every intermediate point (inside any nesting) the invariant of the bookkeeping holds, the stack
   is what it was when the program fragment started, and untouched objects denote the same site-basis
   value *)
Theorem c04_invariant_every_fragment : forall (G X : Type) (gid : G) (gmul : G -> G -> G) (ginv : G -> G)
  (act : G -> X -> X) (app : X -> X -> X),
  (forall a b c, gmul a (gmul b c) = gmul (gmul a b) c) -> (forall a, gmul gid a = a) -> (forall a, gmul a gid = a) ->
  (forall a, gmul a (ginv a) = gid) -> (forall a, gmul (ginv a) a = gid) ->
  (forall x, act gid x = x) -> (forall g h x, act (gmul g h) x = act h (act g x)) ->
  forall (p : prog G X) (s : mst G X), repaired G X p = true -> Inv G X s ->
  let '(s', r, obs) := exec G X gid gmul ginv act app p s in
  Inv G X s' /\ trans G X s' = trans G X s /\ keeps_out G X gid gmul ginv act (writes G X p) s s'.
Proof.
  intros G X gid gmul ginv act app A1 A2 A3 A4 A5 A6 A7 p s.
  exact (exec_spec G X gid gmul ginv act app A1 A2 A3 A4 A5 A6 A7 p s).
Qed.
Print Assumptions c04_invariant_every_fragment.

(* inside a context an unprotected object is presented in the current basis: what is read is its
   site-basis value carried through all transformations on the stack *)
Theorem c04_read_presents_current_basis : forall (G X : Type) (gid : G) (gmul : G -> G -> G) (ginv : G -> G)
  (act : G -> X -> X),
  (forall a b c, gmul a (gmul b c) = gmul (gmul a b) c) -> (forall a, gmul gid a = a) -> (forall a, gmul a gid = a) ->
  (forall a, gmul a (ginv a) = gid) -> (forall a, gmul (ginv a) a = gid) ->
  (forall x, act gid x = x) -> (forall g h x, act (gmul g h) x = act h (act g x)) ->
  forall (s : mst G X) i s' x o, Inv G X s -> heap G X s i = Some o -> prot X o = false ->
  read G X gid gmul act s i = Some (s', Some x) ->
  x = act (Pr G gid gmul (trans G X s)) (site G X gid gmul ginv act (trans G X s) o).
Proof.
  intros G X gid gmul ginv act A1 A2 A3 A4 A5 A6 A7 s i s' x o.
  exact (read_presents_current G X gid gmul ginv act A1 A2 A3 A4 A5 A6 A7 s i s' x o).
Qed.
Print Assumptions c04_read_presents_current_basis.

(* the concrete actions are group actions that keep the basis-independent quantities:
   operators  A -> S^-1 A S  compose, are undone by the inverse, keep tr A and tr(A B) *)
Theorem c04_operator_transform_laws : forall (R : StarRing) n (S1 S T1 T A B : @mat R),
  meq n (sim n T1 T (sim n S1 S A)) (sim n (mmul n T1 S1) (mmul n S T) A) /\
  meq n (sim n (@mid R) (@mid R) A) A /\
  (meq n (mmul n S S1) (@mid R) ->
     meq n (sim n S S1 (sim n S1 S A)) A /\ mtr n (sim n S1 S A) = mtr n A /\
     mtr n (mmul n (sim n S1 S A) (sim n S1 S B)) = mtr n (mmul n A B)).
Proof.
  intros R n S1 S T1 T A B. split; [apply sim_comp|]. split; [apply sim_id|]. intros H.
  split; [now apply sim_inverse|]. split; [now apply mtr_sim|now apply mtr_prod_sim].
Qed.
Print Assumptions c04_operator_transform_laws.

(* four-index tensors: applying the transformed tensor to the transformed operator is the transformed
   result, for ANY invertible S (complex unitary included) - the repaired two-pass transformation *)
Theorem c04_tensor_application_basis_independent : forall (R : StarRing) n (S1 S : @mat R) (T : @tens R) (A : @mat R),
  meq n (mmul n S S1) (@mid R) ->
  meq n (tapply n (ttrans n S1 S T) (sim n S1 S A)) (sim n S1 S (tapply n T A)).
Proof. intros R n. exact (ttrans_covariant n). Qed.
Print Assumptions c04_tensor_application_basis_independent.

Theorem c04_tensor_back_in_original_representation : forall (R : StarRing) n (S1 S : @mat R) (T : @tens R) (A : @mat R),
  meq n (mmul n S S1) (@mid R) -> meq n (mmul n S1 S) (@mid R) ->
  meq n (tapply n (ttrans n S S1 (ttrans n S1 S T)) A) (tapply n T A).
Proof. intros R n. exact (ttrans_roundtrip_action n). Qed.
Print Assumptions c04_tensor_back_in_original_representation.

(* the pinned second pass is the same transformation exactly when the inverse is the transpose ... *)
Theorem c04_pinned_pass_right_for_orthogonal : forall (R : StarRing) n (S1 S : @mat R) (T : @tens R),
  (forall i j, (i < n)%nat -> (j < n)%nat -> S1 i j = S j i) -> teq n (ttrans_pinned n S1 S T) (ttrans n S1 S T).
Proof. intros R n. exact (ttrans_pinned_eq_orthogonal n). Qed.
Print Assumptions c04_pinned_pass_right_for_orthogonal.

(* ... and wrong for a complex unitary one (refutation witness for the pinned tree, repaired by a fix: commit) *)
Theorem c04_pinned_pass_unitary_refuted :
  mmul 2 U_demo U1_demo 0%nat 0%nat = (1,0)%Z /\ mmul 2 U_demo U1_demo 1%nat 1%nat = (1,0)%Z /\
  tapply 2 (ttrans_pinned 2 U1_demo U_demo Id_tens) (sim 2 U1_demo U_demo A_demo) 0%nat 1%nat = (0,1)%Z /\
  sim 2 U1_demo U_demo (tapply 2 Id_tens A_demo) 0%nat 1%nat = (0,-1)%Z /\
  tapply 2 (ttrans 2 U1_demo U_demo Id_tens) (sim 2 U1_demo U_demo A_demo) 0%nat 1%nat = (0,-1)%Z.
Proof. exact pinned_unitary_witness. Qed.
Print Assumptions c04_pinned_pass_unitary_refuted.

(* the pinned apply() left its copy with a stale tag: reading it outside raises; the repaired one does not *)
Theorem c04_stale_copy_refuted :
  snd (fst (trivial_exec (stale_prog CopyUnregistered) (mkM unit nat [] [] (fun _ => None)))) = true /\
  snd (fst (trivial_exec (stale_prog CopyRegistered) (mkM unit nat [] [] (fun _ => None)))) = false.
Proof. exact stale_copy_witness. Qed.
Print Assumptions c04_stale_copy_refuted.

(* non-vacuity: the fresh manager satisfies the invariant and the demo program is a repaired one *)
Example c04_hypotheses_satisfiable :
  Inv unit nat (mkM unit nat [] [] (fun _ => None)) /\ repaired unit nat (stale_prog CopyRegistered) = true.
Proof. split; [apply Inv_fresh|reflexivity]. Qed.

(* The same at the level of the Python state (Proofs/C04gen.v): Manager.basis_stack, basis_transformations, basis_registered,
   current_basis_operator, _in_eigenbasis_of_context and the tagged objects, run by the step functions transcribed statement by
   statement from core/managers.py, utils/types.py, the constructors and SuperOperator.apply (the generated file GenC04b.v proves
   on every run that the current source still gives these step functions).  EVERY program run outside every context ends with
   basis_stack = [0], basis_transformations = [1], basis_registered = {}, the flag cleared, current_basis_operator put back, no
   stale tag, every unprotected object the program did not overwrite back in its original representation - and it raises and
   reads exactly what Model.C04.exec says.  act2 a b stands for transform(a, inv=b). *)
Theorem c04_python_bookkeeping_restores : forall (G X : Type) (gid : G) (gmul : G -> G -> G) (ginv : G -> G)
  (act : G -> X -> X) (act2 : G -> G -> X -> X) (app : X -> X -> X),
  (forall a b c, gmul a (gmul b c) = gmul (gmul a b) c) -> (forall a, gmul gid a = a) -> (forall a, gmul a gid = a) ->
  (forall a, gmul a (ginv a) = gid) -> (forall a, gmul (ginv a) a = gid) ->
  (forall x, act gid x = x) -> (forall g h x, act (gmul g h) x = act h (act g x)) ->
  (forall a b x, gmul a b = gid -> act2 a b x = act a x) ->
  forall (p : prog G X) (ps : pst G X), repaired G X p = true -> PTop G X gid ps ->
  let '(ps', r, obs) := mexec G X (py_steps G X gid gmul ginv act act2 app) p ps in
  PTop G X gid ps' /\ cbo G X ps' = cbo G X ps /\
  (forall j o, ~ In j (writes G X p) -> pheap G X ps j = Some o -> prot X o = false ->
     exists o', pheap G X ps' j = Some o' /\ dat X o' = dat X o /\ tag X o' = 0%nat /\ prot X o' = false) /\
  (let '(s', r0, obs0) := exec G X gid gmul ginv act app p (abs_top G X ps) in r = r0 /\ obs = obs0).
Proof.
  intros G X gid gmul ginv act act2 app A1 A2 A3 A4 A5 A6 A7 A8 p ps.
  exact (py_top_level_restores G X gid gmul ginv act act2 app A1 A2 A3 A4 A5 A6 A7 A8 p ps).
Qed.
Print Assumptions c04_python_bookkeeping_restores.

(* inside any nesting the Python state represents the model state (stack = [0..depth], transformations innermost last, the
   dictionary = the aligned registration lists, same heap), the flag is set exactly inside a context, the operator of the
   enclosing context is restored, and the run raises / reads what the model run does *)
Theorem c04_python_machine_simulates_model : forall (G X : Type) (gid : G) (gmul : G -> G -> G) (ginv : G -> G)
  (act : G -> X -> X) (act2 : G -> G -> X -> X) (app : X -> X -> X),
  (forall a b c, gmul a (gmul b c) = gmul (gmul a b) c) -> (forall a, gmul gid a = a) -> (forall a, gmul a gid = a) ->
  (forall a, gmul a (ginv a) = gid) -> (forall a, gmul (ginv a) a = gid) ->
  (forall x, act gid x = x) -> (forall g h x, act (gmul g h) x = act h (act g x)) ->
  (forall a b x, gmul a b = gid -> act2 a b x = act a x) ->
  forall (p : prog G X) (ps : pst G X) (s : mst G X), repaired G X p = true -> Inv G X s -> RepX G X gid None ps s -> Flag G X ps s ->
  let '(ps', r', o') := mexec G X (py_steps G X gid gmul ginv act act2 app) p ps in
  let '(s', r, o) := exec G X gid gmul ginv act app p s in
  RepX G X gid None ps' s' /\ Flag G X ps' s' /\ cbo G X ps' = cbo G X ps /\ r' = r /\ o' = o.
Proof.
  intros G X gid gmul ginv act act2 app A1 A2 A3 A4 A5 A6 A7 A8 p ps s.
  exact (mexec_sim G X gid gmul ginv act act2 app A1 A2 A3 A4 A5 A6 A7 A8 p ps s).
Qed.
Print Assumptions c04_python_machine_simulates_model.

(* non-vacuity: the Manager as constructed is a state outside every context and represents the fresh model state; act2 a b = act a
   satisfies the law asked of transform(a, inv=b) *)
Example c04_python_hypotheses_satisfiable :
  PTop unit nat tt (py_init unit nat tt) /\ RepX unit nat tt None (py_init unit nat tt) (mkM unit nat [] [] (fun _ => None)) /\
  Flag unit nat (py_init unit nat tt) (mkM unit nat [] [] (fun _ => None)) /\
  (forall (a b : unit) (x : nat), (fun _ _ => tt) a b = tt -> (fun (a _ : unit) (x : nat) => (fun _ x => x) a x) a b x = (fun (_ : unit) (x : nat) => x) a x).
Proof. split; [apply PTop_init|]. split; [apply Rep_init|]. split; [apply Flag_init|reflexivity]. Qed.
