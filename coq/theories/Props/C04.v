From Coq Require Import List.
Theorem c04_placeholder : True. Proof. exact I. Qed.
Print Assumptions c04_placeholder.
