(* C06 - rates and bath functions obey detailed balance and conserve probability.
   Statements only; proofs in Proofs/C06.v, model in Model/C06.v.
   Rate matrices: any commutative ring with involution, every dimension Na and number of bath components Nk, every
   boolean test standing for the float comparisons of the code.  Bath functions: rationals.
   What is NOT proved (validated numerically by the harness, tolerances stated there): that the spline through the
   FFT of the correlation function, the spline quadrature of the Redfield tensor and the Foerster integral equal the
   analytic (1 + coth(w/2kT)) J(w) resp. obey the Boltzmann relation - accuracy of numerical integration. *)
From Coq Require Import ZArith List Bool QArith Lia.
From QV Require Import Base.Alg Base.Sums Base.Mat Model.C06 Proofs.C06.
Import ListNotations.

(* probability conservation: after ssRedfieldRateMatrix every column sums to what its diagonal element held before the
   call (zero: the caller passes a zero matrix) - all inputs, whether or not negative elements were clamped *)
Theorem c06_redfield_columns_sum_to_zero : forall (R : StarRing) (ltz small : R -> bool) Na Nk KI cc RR0 j, (j < Na)%nat ->
  colsum Na (ss_rate ltz small Na Nk KI cc RR0) j = RR0 j j.
Proof. intros R. exact (@ss_colsum R). Qed.
Print Assumptions c06_redfield_columns_sum_to_zero.

(* non-negative bath values and symmetric interaction operators give non-negative transfer rates, untouched by the clamp *)
Theorem c06_redfield_offdiagonal_nonnegative : forall (R : StarRing) (ltz small : R -> bool) (nonneg : R -> Prop),
  nonneg (r0 R) -> (forall x y, nonneg x -> nonneg y -> nonneg (radd R x y)) ->
  (forall x y, nonneg x -> nonneg y -> nonneg (rmul R x y)) -> (forall x, nonneg (rmul R x x)) ->
  (forall x, nonneg x -> ltz x = false) ->
  forall Na Nk (KI cc : nat -> @mat R) RR0 i j, (i < Na)%nat -> (j < Na)%nat -> i <> j ->
  (forall k a b, (k < Nk)%nat -> (a < Na)%nat -> (b < Na)%nat -> nonneg (cc k a b) /\ KI k a b = KI k b a) ->
  nonneg (RR0 i j) ->
  nonneg (ss_rate ltz small Na Nk KI cc RR0 i j) /\ ss_rate ltz small Na Nk KI cc RR0 i j = raw Nk KI cc RR0 i j.
Proof. intros R ltz small. exact (@ss_offdiag_nonneg R ltz small). Qed.
Print Assumptions c06_redfield_offdiagonal_nonnegative.

(* no transfer to or from a state on which all interaction operators vanish (the electronic ground state) *)
Theorem c06_redfield_no_ground_state_transfer : forall (R : StarRing) (ltz small : R -> bool) Na Nk (KI cc : nat -> @mat R) g j,
  g <> j -> (forall k, (k < Nk)%nat -> KI k g j = r0 R /\ KI k j g = r0 R) ->
  ss_rate ltz small Na Nk KI cc (fun _ _ => r0 R) g j = r0 R /\ ss_rate ltz small Na Nk KI cc (fun _ _ => r0 R) j g = r0 R.
Proof. intros R ltz small. exact (@ss_no_transfer R ltz small). Qed.
Print Assumptions c06_redfield_no_ground_state_transfer.

(* detailed balance is transferred: if every bath value obeys cc(a,b) = beta cc(b,a) then K[a,b] = beta K[b,a] *)
Theorem c06_detailed_balance_transfers_to_rates : forall (R : StarRing) (ltz small : R -> bool) Na Nk (KI cc : nat -> @mat R) a b beta,
  a <> b -> (forall k, (k < Nk)%nat -> cc k a b = rmul R beta (cc k b a)) ->
  ltz (raw Nk KI cc (fun _ _ => r0 R) a b) = false -> ltz (raw Nk KI cc (fun _ _ => r0 R) b a) = false ->
  ss_rate ltz small Na Nk KI cc (fun _ _ => r0 R) a b = rmul R beta (ss_rate ltz small Na Nk KI cc (fun _ _ => r0 R) b a).
Proof. intros R ltz small. exact (@ss_detailed_balance R ltz small). Qed.
Print Assumptions c06_detailed_balance_transfers_to_rates.

(* _set_rates builds exactly such bath values: uphill = downhill value x Boltzmann factor of the transition frequency
   (cut-off test even in w); degenerate pairs read the same value in both directions *)
Theorem c06_set_rates_table_detailed_balance : forall (R : StarRing) (ltz gt_cut : R -> bool) (cw : nat -> R -> R) (boltz : R -> R),
  (forall x, gt_cut (ropp R x) = gt_cut x) ->
  forall (hD : nat -> R) k a b, a <> b -> ltz (Om hD b a) = true -> ltz (Om hD a b) = false ->
  cc_table ltz gt_cut cw boltz hD k a b = rmul R (boltz (Om hD a b)) (cc_table ltz gt_cut cw boltz hD k b a).
Proof. intros R ltz gt_cut cw boltz. exact (@cc_table_detailed_balance R ltz gt_cut cw boltz). Qed.
Print Assumptions c06_set_rates_table_detailed_balance.

Theorem c06_set_rates_table_degenerate : forall (R : StarRing) (ltz gt_cut : R -> bool) (cw : nat -> R -> R) (boltz : R -> R)
  (hD : nat -> R) k a b, hD a = hD b ->
  cc_table ltz gt_cut cw boltz hD k a b = cc_table ltz gt_cut cw boltz hD k b a.
Proof. intros R ltz gt_cut cw boltz. exact (@cc_table_degenerate R ltz gt_cut cw boltz). Qed.
Print Assumptions c06_set_rates_table_degenerate.

(* golden-rule form: with site projectors transformed by an orthogonal S (S1 = S^T) the rate is
   sum_k cc_k(a,b) |c_ka|^2 |c_kb|^2 *)
Theorem c06_redfield_golden_rule_form : forall (R : StarRing) Na Nk (S : @mat R) (site : nat -> nat) cc a b,
  (forall k, (k < Nk)%nat -> (site k < Na)%nat) ->
  raw Nk (fun k => KI_of Na (mT S) S (fun k' => proj (site k')) k) cc (fun _ _ => r0 R) a b =
  sum Nk (fun k => rmul R (cc k a b) (rmul R (rmul R (S (site k) a) (S (site k) a)) (rmul R (S (site k) b) (S (site k) b)))).
Proof. intros R. exact (@raw_golden_rule_form R). Qed.
Print Assumptions c06_redfield_golden_rule_form.

(* Foerster: zero column sums for every Hamiltonian and every value of the (oracle) Foerster integral; the
   off-diagonal element is |H_ab|^2 F(a,b) *)
Theorem c06_foerster_columns_sum_to_zero : forall (R : StarRing) Na (HH F : @mat R) j, (j < Na)%nat ->
  colsum Na (foerster_rates Na HH F) j = r0 R.
Proof. intros R. exact (@foerster_colsum R). Qed.
Print Assumptions c06_foerster_columns_sum_to_zero.

Theorem c06_foerster_offdiagonal_form : forall (R : StarRing) Na (HH F : @mat R) a b, a <> b ->
  foerster_rates Na HH F a b = rmul R (rmul R (HH a b) (HH a b)) (F a b).
Proof. intros R. exact (@foerster_offdiag R). Qed.
Print Assumptions c06_foerster_offdiagonal_form.

(* Redfield tensor in the eigenstate basis: R[a,a,b,b] = sum_m (lam_m + conj lam_m) K_ab^2 = 2 Re(lam_m) K_ab^2 when
   Lambda_m[a,b] = lam_m K_m[a,b] (lam_m the half-Fourier transform at the transition frequency) and K real *)
Theorem c06_tensor_population_element_golden_rule : forall (R : StarRing) Nk (K L : nat -> @mat R) (lam : nat -> R) a b,
  (forall m, (m < Nk)%nat -> L m a b = rmul R (lam m) (K m a b) /\ is_real R (K m a b)) ->
  tensor_aabb Nk K L a b = sum Nk (fun m => rmul R (radd R (lam m) (cj R (lam m))) (rmul R (K m a b) (K m a b))).
Proof. intros R. exact (@tensor_aabb_golden_rule R). Qed.
Print Assumptions c06_tensor_population_element_golden_rule.

(* the three analytic spectral densities are odd in frequency *)
Theorem c06_spectral_densities_odd : forall lamb g w0 ctime w, ~ ctime == 0 -> ~ w0 == 0 -> ~ g == 0 ->
  sd_overdamped lamb ctime (- w) == - sd_overdamped lamb ctime w /\
  sd_underdamped_brownian lamb g w0 (- w) == - sd_underdamped_brownian lamb g w0 w /\
  sd_underdamped lamb g w0 (- w) == - sd_underdamped lamb g w0 w.
Proof.
  intros lamb g w0 ctime w Hc H0 Hg. split; [now apply sd_overdamped_odd|].
  split; [now apply sd_underdamped_brownian_odd|now apply sd_underdamped_odd].
Qed.
Print Assumptions c06_spectral_densities_odd.

(* C(-w) = exp(-w/kT) C(w) for C(w) = (1 + 1/tanh(w/2kT)) J(w) with J odd: e stands for exp(-w/kT), for which
   tanh(w/2kT) = (1-e)/(1+e) (monitored on numpy.tanh / numpy.exp) *)
Theorem c06_ftcf_detailed_balance : forall e J, ~ e == 1 -> ~ e == - (1) ->
  let th := (1 - e) / (1 + e) in ftcf_value (- th) (- J) == e * ftcf_value th J.
Proof. exact ftcf_detailed_balance. Qed.
Print Assumptions c06_ftcf_detailed_balance.

Theorem c06_coth_ratio : forall e, ~ e == 1 -> let coth := (1 + e) / (1 - e) in (coth - 1) / (coth + 1) == e.
Proof. exact coth_ratio. Qed.
Print Assumptions c06_coth_ratio.

(* ---- non-vacuity ---- *)
(* the clamp at work on integers (rtol = 5/2): -2 is set to zero, -7 is kept, columns still sum to zero *)
Example c06_example_clamp :
  list_of_mat 3 (ss_rate z_ltz (z_small 5 2) 3 1 (fun _ => mat_of (R:=ZR) [[0;1;1];[1;0;1];[1;1;0]]%Z)
                         (fun _ => mat_of (R:=ZR) [[0;3;-2];[4;0;5];[-7;6;0]]%Z) (fun _ _ => 0%Z))
  = [[3; 3; 0]; [4; -9; 5]; [-7; 6; -5]]%Z.
Proof. vm_compute. reflexivity. Qed.

Example c06_example_nonneg_premises :
  let nonneg (x : ZR) := (0 <= x)%Z in
  nonneg (r0 ZR) /\ (forall x y, nonneg x -> nonneg y -> nonneg (radd ZR x y)) /\
  (forall x y, nonneg x -> nonneg y -> nonneg (rmul ZR x y)) /\ (forall x, nonneg (rmul ZR x x)) /\
  (forall x, nonneg x -> z_ltz x = false).
Proof.
  cbv zeta. cbn [r0 radd rmul ZR car]. repeat split; intros; try nia. unfold z_ltz. apply Z.ltb_ge. assumption.
Qed.


(* ---- Foerster: roles of the indices (K[a,b] is the transfer b -> a: b is the donor) and the two directions of a pair ---- *)
Theorem c06_foerster_transfer_uses_donor_column : forall (R : StarRing) (G : Type) Na (fint : G -> G -> R -> R -> R -> R) (gt : nat -> G)
  (HH : @mat R) (ll : nat -> R) a b, a <> b ->
  foerster_rates Na HH (foerster_F fint gt HH ll) a b = rmul R (rmul R (HH a b) (HH a b)) (fint (gt a) (gt b) (HH b b) (HH a a) (ll b)).
Proof. intros R G. exact (@foerster_transfer_uses_donor_column R G). Qed.
Print Assumptions c06_foerster_transfer_uses_donor_column.

Theorem c06_foerster_phase_relaxed_gap : forall (R : StarRing) (two ed ea ld la : R), two = radd R (r1 R) (r1 R) ->
  foerster_phase two ed ea ld = rsub R (rsub R (rsub R ed ld) (rsub R ea la)) (radd R ld la) /\
  foerster_phase two ea ed la = rsub R (rsub R (r0 R) (rsub R (rsub R ed ld) (rsub R ea la))) (radd R ld la).
Proof. intros R. exact (@foerster_phase_relaxed_gap R). Qed.
Print Assumptions c06_foerster_phase_relaxed_gap.

(* ---- get_FTCorrelationFunction: which temperature is used ---- *)
Theorem c06_ft_temperature_argument_wins : forall t p ps, ft_temperature (Some t) (p :: ps) = FtOk t.
Proof. exact ft_temperature_argument_wins. Qed.
Print Assumptions c06_ft_temperature_argument_wins.

Theorem c06_ft_temperature_stored : forall ps t, ft_temperature None ps = FtOk t ->
  forall p, In p ps -> exists t', p = Some t' /\ t' == t.
Proof. exact ft_temperature_stored. Qed.
Print Assumptions c06_ft_temperature_stored.

(* ---- get_FTCorrelationFunction: the values ---- *)
Theorem c06_ftcf_argument_is_half : forall kB T w, ~ kB * T == 0 -> 2 * (w / ftcf_twokbt kB T) == w / (kB * T).
Proof. exact ftcf_argument_is_half. Qed.
Print Assumptions c06_ftcf_argument_is_half.

Theorem c06_ftcf_grid_detailed_balance : forall (th : Q -> Q) twokbt step i0 direct omega data i i' e, ~ e == 1 -> ~ e == - (1) ->
  i <> i0 -> i' <> i0 -> omega i' = - omega i -> data i' == - data i ->
  th (omega i / twokbt) == (1 - e) / (1 + e) -> th (- omega i / twokbt) == - th (omega i / twokbt) ->
  ftcf_grid th twokbt step i0 direct omega data i' == e * ftcf_grid th twokbt step i0 direct omega data i.
Proof. exact ftcf_grid_detailed_balance. Qed.
Print Assumptions c06_ftcf_grid_detailed_balance.

Theorem c06_ftcf_grid_zero_point : forall (th : Q -> Q) twokbt step i0 omega data, ~ step == 0 -> data (pred i0) == - data (S i0) ->
  ftcf_grid th twokbt step i0 false omega data i0 == twokbt * data (S i0) / step.
Proof. exact ftcf_grid_zero_point. Qed.
Print Assumptions c06_ftcf_grid_zero_point.

(* ---- non-vacuity of the added hypotheses ---- *)
(* a three-point grid -1, 0, 1 with an odd J and a "tanh" that takes the values -1/3, 1/3 (e = 1/2) *)
Example c06_example_grid_premises :
  let th := fun x : Q => if Qle_bool 0 x then 1 # 3 else - (1 # 3) in
  let omega := fun i : nat => inject_Z (Z.of_nat i) - 1 in
  let data := fun i : nat => (inject_Z (Z.of_nat i) - 1) * (5 # 1) in
  let e := 1 # 2 in
  ~ e == 1 /\ ~ e == - (1) /\ 2%nat <> 1%nat /\ 0%nat <> 1%nat /\ omega 0%nat = - omega 2%nat /\ data 0%nat == - data 2%nat /\
  th (omega 2%nat / 1) == (1 - e) / (1 + e) /\ th (- omega 2%nat / 1) == - th (omega 2%nat / 1) /\
  ftcf_grid th 1 1 1 false omega data 0%nat == e * ftcf_grid th 1 1 1 false omega data 2%nat /\
  ftcf_grid th 1 1 1 false omega data 1%nat == 1 * data 2%nat / 1.
Proof. cbv zeta. repeat split; try (intro H; discriminate H); try reflexivity. Qed.

Example c06_example_temperature :
  ft_temperature (Some (77 # 1)) [Some (300 # 1); None] = FtOk (77 # 1) /\
  ft_temperature None [Some (300 # 1); Some (300 # 1)] = FtOk (300 # 1) /\
  ft_temperature None [Some (300 # 1); Some (200 # 1)] = FtErr /\ ft_temperature None [None] = FtErr.
Proof. repeat split. Qed.

Example c06_example_phase : foerster_phase (R:=ZR) 2%Z 10%Z 7%Z 1%Z = 1%Z /\ foerster_phase (R:=ZR) 2%Z 7%Z 10%Z 2%Z = (-7)%Z.
Proof. split; reflexivity. Qed.
