(* C18 - saved objects and exported data load back to the same physical values.
   Statements only; model in Model/C18.v (on top of the basis machine Model/C04.v and the unit
   conversions Model/C05.v), proofs in Proofs/C18.v.  The file writers/readers (dill, numpy.save*,
   savetxt/loadtxt, savemat/loadmat) are oracles: identities on the values with the readers' shape
   conventions; the harness monitors this on every run. *)
From Coq Require Import List Bool Arith ZArith QArith.
From QV Require Import Model.C04 Model.C05 Model.C18 Proofs.C18.
Import ListNotations.
Local Open Scope nat_scope.

(* data of shape (N,) packed with an axis and extracted again: axis and data come back, every N *)
Theorem c18_axis_pack_unpack_1d : forall (A : Type) (ax l : list A), length ax = length l ->
  exists p, pack A ax (A1 l) = Some p /\ extract A p = Some (ax, A1 l).
Proof. exact pack_extract_1d. Qed.
Print Assumptions c18_axis_pack_unpack_1d.

(* data of shape (N,M), M >= 2 *)
Theorem c18_axis_pack_unpack_2d : forall (A : Type) (ax : list A) w rows, 2 <= w -> length ax = length rows ->
  exists p, pack A ax (A2 w rows) = Some p /\ extract A p = Some (ax, A2 w rows).
Proof. exact pack_extract_2d. Qed.
Print Assumptions c18_axis_pack_unpack_2d.

(* data of shape (N,1) with an axis come back with shape (N,): the packed layout cannot tell them apart *)
Theorem c18_axis_pack_n1_shape_refuted : forall (A : Type) (a x : A),
  exists p, pack A [a] (A2 1 [[x]]) = Some p /\ extract A p = Some ([a], A1 [x]) /\ A1 [x] <> A2 1 [[x]].
Proof. exact pack_extract_n1. Qed.
Print Assumptions c18_axis_pack_n1_shape_refuted.

(* export followed by import through EVERY format, with or without axis, returns axis and data unchanged
   for every array the formats can represent (at least two entries per index; a one-index array in a
   .mat file needs an axis); holds for both variants of the code except for .npz with an axis, which
   needs the repaired writer *)
Theorem c18_export_import_identity : forall (A : Type) (v : dvariant) (f : fmt) (ax : option (list A)) (d : arr A),
  regular A d ->
  (forall a, ax = Some a -> length a = nrows A d) ->
  (f = Mat -> ax = None -> exists w rows, d = A2 w rows) ->
  (f = Npz -> ax <> None -> npz_axis_saves v = true) ->
  export_import A v f ax d = Some (ax, d).
Proof. exact export_import_regular. Qed.
Print Assumptions c18_export_import_identity.

(* for every shape (also the degenerate ones): whenever the import succeeds, the values in storage order
   and the axis are the exported ones *)
Theorem c18_export_import_values : forall (A : Type) (f : fmt) (ax : option (list A)) (d : arr A) ax' d',
  export_import A drepaired f ax d = Some (ax', d') -> flat A d' = flat A d /\ ax' = ax.
Proof. exact export_import_values. Qed.
Print Assumptions c18_export_import_values.

(* pinned writer: .npz with an axis cannot be written at all *)
Theorem c18_npz_axis_refuted : forall (A : Type) (ax : list A) (d : arr A),
  export_import A (dpinned) Npz (Some ax) d = None.
Proof. intros A ax d. unfold export_import. destruct (pack A ax d); reflexivity. Qed.
Print Assumptions c18_npz_axis_refuted.

(* pinned text import: a single point with its axis value cannot be read back; repaired: it can *)
Theorem c18_text_axis_single_point_refuted : forall (A : Type) (a x : A),
  export_import A dpinned Txt (Some [a]) (A1 [x]) = None /\
  export_import A drepaired Txt (Some [a]) (A1 [x]) = Some (Some [a], A1 [x]).
Proof. intros; split; reflexivity. Qed.
Print Assumptions c18_text_axis_single_point_refuted.

(* a one-index array in a .mat file without axis comes back as a (1,N) array (same values) *)
Theorem c18_mat_one_index_shape_refuted : forall (A : Type) (v : dvariant) (x y : A),
  export_import A v Mat None (A1 [x; y]) = Some (None, A2 2 [[x; y]]).
Proof. intros; reflexivity. Qed.
Print Assumptions c18_mat_one_index_shape_refuted.

(* the object created by loading a parcel presents, wherever it is read, exactly what the saved object
   presents there - for every state of the basis management (any nesting depth, any tag), any group of
   basis changes: saving and loading in the same situation is the identity on what can be observed *)
Theorem c18_load_reads_like_original : forall (G X : Type) (gid : G) (gmul : G -> G -> G) (act : G -> X -> X)
  (s : mst G X) i j o, heap G X s i = Some o ->
  save G X s i = Some o /\
  value_read G X (read G X gid gmul act (load G X s j o) j) = value_read G X (read G X gid gmul act s i).
Proof.
  intros G X gid gmul act s i j o H. split; [exact H|].
  exact (load_reads_like_original G X gid gmul act s i j o H).
Qed.
Print Assumptions c18_load_reads_like_original.

(* outside every context: the data come back as stored *)
Theorem c18_save_load_outside_ctx : forall (G X : Type) (gid : G) (gmul : G -> G -> G) (act : G -> X -> X)
  (s : mst G X) i j o, trans G X s = [] -> heap G X s i = Some o -> tag X o = 0 ->
  save G X s i = Some o /\ value_read G X (read G X gid gmul act (load G X s j o) j) = Some (Some (dat X o)).
Proof. intros G X gid gmul act. exact (save_load_outside G X gid gmul act). Qed.
Print Assumptions c18_save_load_outside_ctx.

(* an object saved inside a basis context carries the tag of that context: unreadable once the
   context is left (the original is readable) ... *)
Theorem c18_save_in_ctx_load_outside_refuted : exists p : list (op18 Z Z),
  snd (zrun zfresh p) = [Val Z 1 10%Z; Err Z 2; Val Z 1 7%Z].
Proof. eexists. exact saved_in_context_unreadable_outside. Qed.
Print Assumptions c18_save_in_ctx_load_outside_refuted.

(* ... stale after the context when loaded inside it ... *)
Theorem c18_load_in_ctx_stale_refuted : exists p : list (op18 Z Z),
  snd (zrun zfresh p) = [Val Z 1 10%Z; Val Z 2 10%Z; Err Z 2; Val Z 1 7%Z].
Proof. eexists. exact loaded_in_context_stale_outside. Qed.
Print Assumptions c18_load_in_ctx_stale_refuted.

(* ... and silently mislabelled when loaded inside a different context (10 instead of 12) *)
Theorem c18_save_in_ctx_mislabelled_refuted : exists p : list (op18 Z Z),
  snd (zrun zfresh p) = [Val Z 1 10%Z; Val Z 2 10%Z; Val Z 1 12%Z].
Proof. eexists. exact saved_in_context_mislabelled_in_another. Qed.
Print Assumptions c18_save_in_ctx_mislabelled_refuted.

(* energy-valued quantities are stored in internal units and the parcel copies the stored value: what
   is read under units v does not depend on the units current while saving (us) or loading (ul) *)
Theorem c18_units_context_irrelevant : forall (fac : eunit -> Q) (u0 us ul v : eunit) (x : Q),
  read_units fac v (parcel_copy us ul (stored fac u0 x)) = read_units fac v (stored fac u0 x).
Proof. reflexivity. Qed.
Print Assumptions c18_units_context_irrelevant.

(* ---- savedir / loaddir sessions (Model.C18 part D: directory -> ordered table tag -> object) ----
   [TagPinned]: automatic tag = last key + 1 (the code as found); [TagRepaired]: 1 + largest integer key.
   The first three theorems hold for both variants. *)

(* one successful savedir, in any state of any number of directories: the object is found under the
   reported tag in that directory, every other tag there and every other directory are untouched *)
Theorem c18_savedir_stores_and_keeps : forall (O : Type) (v : tvariant) (s s' : dirs O) d tag x k,
  savedir O v s d tag x = (s', DSaved k) ->
  s' d = Some (tset O (tab_of O s d) k x) /\
  tget O (tab_of O s' d) k = Some x /\
  (forall k', tag_eqb k' k = false -> tget O (tab_of O s' d) k' = tget O (tab_of O s d) k') /\
  (forall d', d' <> d -> s' d' = s d') /\
  (tag = Some k \/ (tag = None /\ auto_tag O v (tab_of O s d) = Some k)).
Proof. intros O v. exact (savedir_spec O v). Qed.
Print Assumptions c18_savedir_stores_and_keeps.

(* a new directory's table lists the saved object only; the automatic tag starts at 1 *)
Theorem c18_savedir_fresh_directory : forall (O : Type) (v : tvariant) (s : dirs O) d tag x, s d = None ->
  exists k, savedir O v s d tag x = (fun d' => if Nat.eqb d' d then Some [(k, x)] else s d', DSaved k) /\
            (tag = None -> k = TInt 1) /\ (forall k0, tag = Some k0 -> k = k0).
Proof. intros O v. exact (savedir_fresh O v). Qed.
Print Assumptions c18_savedir_fresh_directory.

(* for EVERY session (history of savedir / loaddir calls on any directories): what a directory holds -
   and so what loaddir returns - is what the calls into that very directory alone would have produced *)
Theorem c18_directories_independent : forall (O : Type) (v : tvariant) (h : list (dop O)) (s1 s2 : dirs O) d,
  s1 d = s2 d ->
  fst (drun O v s1 h) d = fst (drun O v s2 (filter (fun o => Nat.eqb (target O o) d) h)) d.
Proof. intros O v. exact (directories_independent O v). Qed.
Print Assumptions c18_directories_independent.

(* repaired: the automatic tag can always be formed and is never a key of the table *)
Theorem c18_auto_tag_free : forall (O : Type) (t : table O),
  exists z, auto_tag O TagRepaired t = Some (TInt z) /\ tget O t (TInt z) = None.
Proof. exact auto_tag_repaired_free. Qed.
Print Assumptions c18_auto_tag_free.

(* repaired: savedir without a tag never fails and loses nothing: every (tag, object) the directory
   held before the call it still holds afterwards, and the new object is there under a tag that was free *)
Theorem c18_savedir_auto_loses_nothing : forall (O : Type) (s : dirs O) d x,
  exists s' k, savedir O TagRepaired s d None x = (s', DSaved k) /\
               tget O (tab_of O s d) k = None /\
               tget O (tab_of O s' d) k = Some x /\
               forall k' y, tget O (tab_of O s d) k' = Some y -> tget O (tab_of O s' d) k' = Some y.
Proof. exact savedir_auto_repaired. Qed.
Print Assumptions c18_savedir_auto_loses_nothing.

(* pinned: the automatic tag continues from the last key, not the largest: an earlier object is
   overwritten (repaired: tag 4, nothing lost) *)
Theorem c18_auto_tag_overwrites_refuted : exists h : list (dop nat),
  snd (drun nat TagPinned (no_dirs nat) h) = [DSaved (TInt 1); DSaved (TInt 3); DSaved (TInt 2); DSaved (TInt 3);
                                              DLoaded [(TInt 1, 10); (TInt 3, 13); (TInt 2, 12)]] /\
  snd (drun nat TagRepaired (no_dirs nat) h) = [DSaved (TInt 1); DSaved (TInt 3); DSaved (TInt 2); DSaved (TInt 4);
                                                DLoaded [(TInt 1, 10); (TInt 3, 11); (TInt 2, 12); (TInt 4, 13)]].
Proof. eexists. exact auto_tag_overwrites. Qed.
Print Assumptions c18_auto_tag_overwrites_refuted.

(* pinned: after a string tag no automatic tag can be formed (repaired: tag 1) *)
Theorem c18_auto_tag_after_string_refuted : exists h : list (dop nat),
  snd (drun nat TagPinned (no_dirs nat) h) = [DSaved (TStr 0); DErr; DLoaded [(TStr 0, 10)]] /\
  snd (drun nat TagRepaired (no_dirs nat) h) = [DSaved (TStr 0); DSaved (TInt 1); DLoaded [(TStr 0, 10); (TInt 1, 11)]].
Proof. eexists. exact auto_tag_after_string_fails. Qed.
Print Assumptions c18_auto_tag_after_string_refuted.

(* ---- what the static tie reads off the code in addition (Model.C18 part E) ----
   the packed array [axis | data] is allocated with the common dtype of the two (numpy.result_type): whatever the dtypes,
   every value that fits its own array's dtype is stored unchanged, i.e. the typed packing IS the packing of the
   theorems above; [cast] is any family of casts that is monotone along the tower integer < float < complex *)
Theorem c18_pack_common_dtype_lossless : forall (A : Type) (cast : dty -> A -> A),
  (forall t t' x, dt_le t t' = true -> fits A cast t x -> fits A cast t' x) ->
  forall td ta ax d, Forall (fits A cast td) (flat A d) -> Forall (fits A cast ta) ax ->
  pack_t A cast (dt_join td ta) ax d = pack A ax d.
Proof. exact pack_t_lossless. Qed.
Print Assumptions c18_pack_common_dtype_lossless.

(* allocated with the dtype of the (real) axis instead, complex data lose their imaginary parts *)
Theorem c18_pack_axis_dtype_refuted :
  pack_t _ zcast DReal [(1, 0)%Z; (2, 0)%Z] (A2 1 [[(5, 7)%Z]; [(6, 8)%Z]]) = Some (A2 2 [[(1, 0); (5, 0)]; [(2, 0); (6, 0)]]%Z) /\
  pack_t _ zcast (dt_join DCplx DReal) [(1, 0)%Z; (2, 0)%Z] (A2 1 [[(5, 7)%Z]; [(6, 8)%Z]]) = Some (A2 2 [[(1, 0); (5, 7)]; [(2, 0); (6, 8)]]%Z).
Proof. exact pack_axis_dtype_loses. Qed.
Print Assumptions c18_pack_axis_dtype_refuted.

(* what a format does to an array depends only on the writer/reader pair its extension dispatches to *)
Theorem c18_format_by_kind : forall (A : Type) (v : dvariant) (f : fmt) (wa : bool) (d : arr A),
  through A v f wa d = through_k A v (kind_of f) wa d.
Proof. exact through_by_kind. Qed.
Print Assumptions c18_format_by_kind.

(* non-vacuity *)
Example c18_example :
  export_import Z drepaired Txt (Some [10; 20; 30]%Z) (A2 2 [[1; 2]; [3; 4]; [5; 6]]%Z)
    = Some (Some [10; 20; 30]%Z, A2 2 [[1; 2]; [3; 4]; [5; 6]]%Z) /\
  export_import Z drepaired Mat (Some [10; 20]%Z) (A1 [1; 2]%Z) = Some (Some [10; 20]%Z, A1 [1; 2]%Z) /\
  export_import Z drepaired Dat None (A2 1 [[1]; [2]; [3]]%Z) = Some (None, A1 [1; 2; 3]%Z) /\
  snd (zrun zfresh [ONew Z Z 0 5%Z; ONew Z Z 1 7%Z; OSave Z Z 1 0; OEnter Z Z 0 3%Z; OLoad Z Z 0 2; ORead Z Z 2;
                    ORead Z Z 1; OLeave Z Z; ORead Z Z 2]) = [Val Z 2 10%Z; Val Z 1 10%Z; Val Z 2 7%Z].
Proof. repeat split; vm_compute; reflexivity. Qed.
(* the hypotheses of c18_pack_common_dtype_lossless are satisfiable: the cast of the correspondence instance *)
Example c18_example_dtype :
  (forall t t' x, dt_le t t' = true -> fits _ zcast t x -> fits _ zcast t' x) /\
  Forall (fits _ zcast DCplx) (flat _ (A1 [(5, 7)%Z])) /\ Forall (fits _ zcast DReal) [(1, 0)%Z].
Proof. split; [exact zcast_mono | split; repeat constructor]. Qed.
