(* C14 - initial and thermal states are valid Boltzmann density matrices.
   Statements only; proofs in Proofs/C14.v, Proofs/C14_mat.v, model in Model/C14.v.

   Populations: rationals (Q contains every float64), for lists of energies of every length, every energy
   scale and every temperature.  numpy.exp is an oracle [ex] of which only ex 0 == 1, 0 <= ex x and
   monotonicity are assumed, so a Boltzmann factor may underflow to 0.
   Matrices: any commutative ring with involution, every dimension; "non-negative" is any predicate closed
   like 0 <= x in an ordered ring with x * conj x non-negative. *)
From Coq Require Import ZArith List Bool QArith Lia.
From QV Require Import Base.Alg Base.Sums Base.Mat Model.C14 Proofs.C14 Proofs.C14_mat.
Import ListNotations.

(* with the energies counted from the lowest one the partition sum is at least 1: no 0/0 at any temperature *)
Theorem c14_partition_sum_at_least_one : forall (ex : Q -> Q),
  ex 0 == 1 -> (forall x, 0 <= ex x) -> (forall x y, x <= y -> ex x <= ex y) ->
  forall kT e0 er, ~ kT == 0 -> (1 <= qsum (bweights ex Fixed kT e0 er))%Q.
Proof. exact partition_sum_ge_1. Qed.
Print Assumptions c14_partition_sum_at_least_one.

(* _thermal_population (repaired) returns, for every T >= 0 (zero included), every Hamiltonian diagonal, every
   subtracted energies and every start of the block: populations in [0,1] that sum to 1, none below the block *)
Theorem c14_thermal_populations_valid : forall (ex : Q -> Q),
  ex 0 == 1 -> (forall x, 0 <= ex x) -> (forall x y, x <= y -> ex x <= ex y) ->
  forall vz kB temp hd sub start, 0 < kB -> 0 <= temp -> zipsub (skipn start hd) sub <> [] ->
  exists p, thermal_population ex Fixed vz kB temp hd sub start = Some p /\
            length p = (start + length (zipsub (skipn start hd) sub))%nat /\
            Forall (fun x => 0 <= x <= 1) p /\ qsum p == 1 /\
            (forall i, (i < start)%nat -> nth i p 0 = 0).
Proof. exact thermal_population_valid. Qed.
Print Assumptions c14_thermal_populations_valid.

(* every weight is at most 1 after the shift (nothing can overflow either) *)
Theorem c14_shifted_weights_at_most_one : forall (ex : Q -> Q),
  ex 0 == 1 -> (forall x y, x <= y -> ex x <= ex y) ->
  forall kT e0 er, 0 < kT -> Forall (fun x => x <= 1) (bweights ex Fixed kT e0 er).
Proof. exact bweights_le_1. Qed.
Print Assumptions c14_shifted_weights_at_most_one.

(* populations are proportional to the oracle's Boltzmann factors - any oracle, either variant *)
Theorem c14_populations_proportional_to_boltzmann_factors : forall (ex : Q -> Q) vs kT e0 er p a b,
  boltz ex vs kT e0 er = Some p ->
  nth a p 0 * nth b (bweights ex vs kT e0 er) 0 == nth b p 0 * nth a (bweights ex vs kT e0 er) 0.
Proof. intros ex. exact (boltz_proportional ex). Qed.
Print Assumptions c14_populations_proportional_to_boltzmann_factors.

(* with an exact exponential (ex (x+y) = ex x * ex y; nothing underflows) the populations of every two states
   of the block are in the ratio exp(-(E_a - E_b)/kT), at every temperature *)
Theorem c14_boltzmann_ratio : forall (ex : Q -> Q),
  ex 0 == 1 -> (forall x y, x == y -> ex x == ex y) -> (forall x y, ex (x + y) == ex x * ex y) ->
  forall vs kT e0 er p a b, ~ kT == 0 -> boltz ex vs kT e0 er = Some p ->
  (a < S (length er))%nat -> (b < S (length er))%nat ->
  nth a p 0 == ex (- (nth a (e0 :: er) 0 - nth b (e0 :: er) 0) / kT) * nth b p 0.
Proof. exact boltz_ratio. Qed.
Print Assumptions c14_boltzmann_ratio.

(* the repair (shift of the energies) does not change any population where the pinned code produced one *)
Theorem c14_shift_keeps_populations : forall (ex : Q -> Q),
  ex 0 == 1 -> (forall x y, x == y -> ex x == ex y) -> (forall x y, ex (x + y) == ex x * ex y) ->
  forall kT e0 er pb pf, ~ kT == 0 ->
  boltz ex Buggy kT e0 er = Some pb -> boltz ex Fixed kT e0 er = Some pf -> forall i, nth i pb 0 == nth i pf 0.
Proof. exact boltz_shift_invariant. Qed.
Print Assumptions c14_shift_keeps_populations.

(* T = 0: all population is on a state of lowest energy (repaired) *)
Theorem c14_zero_temperature_populates_lowest_state : forall e0 er, let k := argmin e0 er in
  (k < S (length er))%nat /\
  (forall e, In e (e0 :: er) -> nth k (e0 :: er) 0 <= e) /\
  (forall i, nth i (zeroT Fixed e0 er) 0 = if Nat.eqb i k then 1 else 0) /\
  qsum (zeroT Fixed e0 er) == 1 /\ Forall (fun x => 0 <= x <= 1) (zeroT Fixed e0 er).
Proof. exact zeroT_spec. Qed.
Print Assumptions c14_zero_temperature_populates_lowest_state.

(* ... and it is the low-temperature limit: once every Boltzmann factor except that of a unique lowest state
   has underflowed to 0, the populations at T > 0 are those handed out at T = 0 *)
Theorem c14_low_temperature_limit_is_zero_temperature_state : forall (ex : Q -> Q),
  ex 0 == 1 -> (forall x y, x <= y -> ex x <= ex y) ->
  forall kT e0 er p, ~ kT == 0 ->
  (forall i, (i < S (length er))%nat -> i <> argmin e0 er -> ex (- (nth i (e0 :: er) 0 - lmin e0 er) / kT) == 0) ->
  boltz ex Fixed kT e0 er = Some p -> forall i, nth i p 0 == nth i (zeroT Fixed e0 er) 0.
Proof. exact low_temperature_limit. Qed.
Print Assumptions c14_low_temperature_limit_is_zero_temperature_state.

(* pinned code: T = 0 populated the first state of the block even when another one is lower *)
Theorem c14_zero_temperature_first_state_refuted :
  zeroT Buggy 2 [1] = [1; 0] /\ zeroT Fixed 2 [1] = [0; 1] /\ ~ nth 0 [2; 1] 0 <= nth 1 [2; 1] 0.
Proof. exact zeroT_buggy_witness. Qed.
Print Assumptions c14_zero_temperature_first_state_refuted.

(* pinned code: without the shift an admissible oracle (all factors underflow) gives 0/0 *)
Theorem c14_underflow_refuted : exists ex : Q -> Q,
  (ex 0 == 1 /\ (forall x, 0 <= ex x) /\ (forall x y, x <= y -> ex x <= ex y)) /\
  thermal_population ex Buggy Fixed 1 1 [1] [0] 0 = None /\
  thermal_population ex Fixed Fixed 1 1 [1] [0] 0 = Some [1 / 1].
Proof. exists ex_step. split; [exact ex_step_ok|exact underflow_witness]. Qed.
Print Assumptions c14_underflow_refuted.

(* a diagonal matrix of real non-negative numbers is Hermitian and positive semidefinite *)
Theorem c14_diagonal_state_hermitian_psd : forall (R : StarRing) (nonneg : R -> Prop),
  nonneg (r0 R) -> (forall x y, nonneg x -> nonneg y -> nonneg (radd R x y)) ->
  (forall x y, nonneg x -> nonneg y -> nonneg (rmul R x y)) -> (forall x, nonneg (rmul R x (cj R x))) ->
  forall n (d : nat -> R), (forall i, (i < n)%nat -> is_real R (d i) /\ nonneg (d i)) ->
  herm n (mdiag d) /\ psd nonneg n (mdiag d).
Proof.
  intros R nonneg nn0 nnadd nnmul nnnorm n d Hd. split.
  - apply mdiag_herm. intros i Hi. now apply Hd.
  - apply (mdiag_psd nonneg nn0 nnadd nnmul nnnorm). intros i Hi. now apply Hd.
Qed.
Print Assumptions c14_diagonal_state_hermitian_psd.

(* impulsive excitation X rho X with X Hermitian (dabs is real symmetric): Hermitian and positive semidefinite,
   because v^dagger (X rho X^dagger) v = (X^dagger v)^dagger rho (X^dagger v) *)
Theorem c14_impulsive_hermitian_psd : forall (R : StarRing) (nonneg : R -> Prop) n (X rho : @mat R),
  herm n X -> herm n rho -> psd nonneg n rho ->
  herm n (impulsive n X rho) /\ psd nonneg n (impulsive n X rho).
Proof.
  intros R nonneg n X rho HX Hr Hp. split; [now apply impulsive_herm|now apply impulsive_psd].
Qed.
Print Assumptions c14_impulsive_hermitian_psd.

Theorem c14_congruence_quadratic_form : forall (R : StarRing) n (X rho : @mat R) v,
  qform n (mmul n X (mmul n rho (mdag X))) v = qform n rho (mv n (mdag X) v).
Proof. intros R. exact (@qform_congruence R). Qed.
Print Assumptions c14_congruence_quadratic_form.

(* weak coupling (repaired): the state denoted in the site basis is W D W1 with W the total transformation
   site basis -> exciton basis; two requests reaching the same exciton basis (from outside any context, from
   inside the context of the Hamiltonian, from inside any other context) denote the same physical state *)
Theorem c14_weak_coupling_same_state_in_any_context : forall (R : StarRing) n (S S1 U U1 S' S1' U' U1' D : @mat R),
  meq n (mmul n S U) (mmul n S' U') -> meq n (mmul n U1 S1) (mmul n U1' S1') ->
  meq n (site_repr n S S1 (weak_data Fixed n U U1 D)) (site_repr n S' S1' (weak_data Fixed n U' U1' D)).
Proof. intros R. exact (@weak_fixed_same_state R). Qed.
Print Assumptions c14_weak_coupling_same_state_in_any_context.

Theorem c14_weak_outside_context_refuted :
  meq 2 (mmul 2 (mid (R:=ZR)) swap2) (mmul 2 swap2 mid) /\
  ~ meq 2 (site_repr 2 mid mid (weak_data Buggy 2 swap2 swap2 pop10))
          (site_repr 2 swap2 swap2 (weak_data Buggy 2 mid mid pop10)).
Proof. exact weak_buggy_witness. Qed.
Print Assumptions c14_weak_outside_context_refuted.

(* strong coupling (repaired): inside any context reached by an invertible S the energies used are the site
   energies and the returned matrix denotes the site-basis matrix of populations *)
Theorem c14_strong_coupling_same_state_in_any_context : forall (R : StarRing) n (S S1 Hsite D : @mat R),
  meq n (mmul n S S1) mid ->
  (forall i, (i < n)%nat -> strong_energies Fixed n S S1 (mmul n S1 (mmul n Hsite S)) i = Hsite i i) /\
  meq n (site_repr n S S1 (strong_data Fixed n S S1 D)) D.
Proof.
  intros R n S S1 Hsite D Hinv. split; [intros i Hi; now apply strong_fixed_energies|now apply strong_fixed_site_repr].
Qed.
Print Assumptions c14_strong_coupling_same_state_in_any_context.

Theorem c14_strong_inside_context_refuted :
  strong_energies Buggy 2 swap2 swap2 (mmul 2 swap2 (mmul 2 hsite12 swap2)) 0 <> hsite12 0%nat 0%nat /\
  ~ meq 2 (site_repr 2 swap2 swap2 (strong_data Buggy 2 swap2 swap2 pop10)) pop10.
Proof. exact strong_buggy_witness. Qed.
Print Assumptions c14_strong_inside_context_refuted.

(* ---- non-vacuity ---- *)
(* the hypotheses on "non-negative" hold for the Gaussian integers with  nonneg z := im z = 0 /\ 0 <= re z *)
Example c14_example_nonneg_gaussian :
  let nonneg (z : GZ) := (snd z = 0 /\ 0 <= fst z)%Z in
  nonneg (r0 GZ) /\ (forall x y, nonneg x -> nonneg y -> nonneg (radd GZ x y)) /\
  (forall x y, nonneg x -> nonneg y -> nonneg (rmul GZ x y)) /\ (forall x, nonneg (rmul GZ x (cj GZ x))).
Proof.
  cbv zeta. split; [split; [reflexivity|cbn; lia]|]. split; [|split].
  - intros [a b] [c d] [H1 H2] [H3 H4]. cbn in *. split; lia.
  - intros [a b] [c d] [H1 H2] [H3 H4]. cbn in *. subst. split; nia.
  - intros [a b]. cbn. split; nia.
Qed.

(* a concrete run of the repaired and of the pinned model: three excited states, energies 3, 1, 2, oracle that
   underflows below -1: the pinned variant has no value, the repaired one puts everything on the lowest state *)
Example c14_example_underflow :
  thermal_population (fun x => if Qle_bool (- (1)) x then (if Qle_bool 0 x then 1 else 1 # 2) else 0) Fixed Fixed 1 (1 # 2) [0; 3; 1; 2] [0; 0; 0] 1
    = Some [0; 0 / (0 + (1 + (0 + 0))); 1 / (0 + (1 + (0 + 0))); 0 / (0 + (1 + (0 + 0)))] /\
  thermal_population (fun x => if Qle_bool (- (1)) x then (if Qle_bool 0 x then 1 else 1 # 2) else 0) Buggy Fixed 1 (1 # 2) [0; 3; 1; 2] [0; 0; 0] 1 = None.
Proof. split; reflexivity. Qed.


(* ---- nested basis contexts (what the strong-coupling branch accumulates from Manager().basis_transformations) ---- *)
(* the data of an operator inside contexts entered one after the other are (Zi_m ... Zi_1) . A . (Z_1 ... Z_m): the transformation from
   the site basis is the product in the order of entering - all dimensions, any number of contexts, no hypothesis *)
Theorem c14_nested_contexts_accumulated_transformation : forall (R : StarRing) n (ctx : list (@mat R * @mat R)) (A : @mat R),
  meq n (nested_data n ctx A) (mmul n (inverse_product n (map snd ctx)) (mmul n A (basis_product n (map fst ctx)))).
Proof. intros R. exact (@nested_data_accumulated R). Qed.
Print Assumptions c14_nested_contexts_accumulated_transformation.

Theorem c14_accumulated_transformation_invertible : forall (R : StarRing) n (ctx : list (@mat R * @mat R)),
  (forall c, In c ctx -> meq n (mmul n (fst c) (snd c)) mid) ->
  meq n (mmul n (basis_product n (map fst ctx)) (inverse_product n (map snd ctx))) mid.
Proof. intros R. exact (@basis_product_inverse R). Qed.
Print Assumptions c14_accumulated_transformation_invertible.

(* strong coupling requested inside any number of nested contexts reads the site energies *)
Theorem c14_strong_coupling_nested_contexts : forall (R : StarRing) n (ctx : list (@mat R * @mat R)) (Hsite : @mat R) i, (i < n)%nat ->
  (forall c, In c ctx -> meq n (mmul n (fst c) (snd c)) mid) ->
  strong_energies Fixed n (basis_product n (map fst ctx)) (inverse_product n (map snd ctx)) (nested_data n ctx Hsite) i = Hsite i i.
Proof. intros R. exact (@strong_energies_nested R). Qed.
Print Assumptions c14_strong_coupling_nested_contexts.

(* non-vacuity: two nested contexts that each swap the two states *)
Example c14_example_nested_contexts :
  (forall c, In c [(swap2, swap2); (swap2, swap2)] -> meq 2 (mmul 2 (fst c) (snd c)) (mid (R:=ZR))) /\
  strong_energies Fixed 2 (basis_product 2 [swap2; swap2]) (inverse_product 2 [swap2; swap2]) (nested_data 2 [(swap2, swap2); (swap2, swap2)] hsite12) 1 = 2%Z.
Proof.
  split; [|vm_compute; reflexivity].
  intros c [<-|[<-|[]]]; exact swap2_involution.
Qed.
