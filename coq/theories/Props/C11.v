(* C11 — linear spectra match the Fourier integral and symmetry relations.
   Statements only; proofs in Proofs/C11.v (and Base/Dft.v), model in Model/C11.v.

   Values: any commutative ring R with involution and zeta, zeta^n = 1, n = 2 Nt - 2 the number of points
   numpy.fft.hfft returns for Nt time points (hfft is an oracle: hypothesis hfft_spec, twice its k-th output is the
   half-sided trapezoid Fourier sum of the input at the integer frequency -k plus the complex conjugate).
   Frequencies: any field K of characteristic 0 with 2 pi abstract (as in C13). *)
From Coq Require Import ZArith List Bool Arith QArith Qcanon Permutation.
From QV Require Import Base.Alg Base.Sums Base.Mat Base.Dft Model.C13 Proofs.C13 Proofs.C13gen Model.C11 Proofs.C11 Proofs.C11gen.
Import ListNotations.

(* position p of the line returned by one_transition_spectrum holds dd dt x (half-sided Fourier sum of
   a(t) = exp(-g(t) - i w t) + c.c.) at the integer frequency  p + Nt//2 - Nt + 2  of the transform's own grid
   (2 Nt - 2 points) — for every Nt >= 3, every input, every position *)
Theorem c11_line_is_fourier_sum_on_transform_grid : forall (R : StarRing) (nt : nat) (zeta : R),
  (3 <= nt)%nat -> pow zeta (2 * nt - 2) = r1 R ->
  forall hfft, hfft_spec nt zeta hfft ->
  forall dd dt (a : list R) p, length a = nt -> (p < nt)%nat ->
  rmul R (radd R (r1 R) (r1 R)) (nth p (one_transition hfft dd dt a) (r0 R)) =
  rmul R (rmul R dd dt) (fsum nt zeta a (Z.of_nat p + Z.of_nat (nt / 2) - Z.of_nat nt + 2)).
Proof. intros R nt zeta H3 Hz hfft Hh dd dt a p Ha Hp. now apply one_transition_sum. Qed.
Print Assumptions c11_line_is_fourier_sum_on_transform_grid.

(* the spectrum of an aggregate is, point by point, the sum over the exciton transitions of these lines *)
Theorem c11_spectrum_is_sum_of_lines : forall (R : StarRing) (nt : nat) (zeta : R),
  (3 <= nt)%nat -> forall hfft, hfft_spec nt zeta hfft ->
  forall dt lines p, lines <> [] -> Forall (fun l => length (snd l) = nt) lines -> (p < nt)%nat ->
  nth p (spectrum hfft dt lines) (r0 R) =
  lsum (map (fun l => nth p (one_transition hfft (fst l) dt (snd l)) (r0 R)) lines).
Proof. intros R nt zeta H3 hfft Hh dt lines p Hne Hall Hp. now apply (spectrum_nth nt H3 zeta). Qed.
Print Assumptions c11_spectrum_is_sum_of_lines.

(* the code as found: the axis returned with the data (Nt points cut from bootstrap's axis of 2 Nt points) does NOT
   carry these frequencies: at EVERY position the frequency of the data differs from the axis point; it equals
   rwa + (axis point - rwa) Nt/(Nt-1) + 2 grid steps: two points at the centre plus a stretch *)
Theorem c11_axis_alignment_refuted : forall (K : Fld) (tp : K),
  tp <> f0 K -> (forall n, ofnat K (S n) <> f0 K) ->
  forall nt dt rwa p y, (2 <= nt)%nat -> dt <> f0 K ->
  returned_axis_point K tp Pinned nt dt rwa p = Some y ->
  y <> data_frequency K tp nt dt rwa p /\
  data_frequency K tp nt dt rwa p =
    fadd K (fadd K rwa (fmul K (fsub K y rwa) (fdiv K (ofnat K nt) (ofnat K (nt - 1)))))
           (fmul K (fadd K (f1 K) (f1 K)) (fdiv K tp (fmul K (ofnat K (2 * nt - 2)) dt))).
Proof.
  intros K tp H1 H2 nt dt rwa p y Hn Hd Hy. split.
  - now apply (pinned_misaligned K tp H1 H2 nt dt rwa p y).
  - now apply (pinned_displacement K tp H2 nt dt rwa p y).
Qed.
Print Assumptions c11_axis_alignment_refuted.

(* an axis re-created on the transform's grid carries the frequency of every data point *)
Theorem c11_axis_alignment_repaired : forall (K : Fld) (tp : K) nt dt rwa p,
  returned_axis_point K tp Repaired nt dt rwa p = Some (data_frequency K tp nt dt rwa p).
Proof. intros. reflexivity. Qed.
Print Assumptions c11_axis_alignment_repaired.

(* dipole strengths of the exciton transitions (which multiply the lines): square of a common factor, unchanged by
   a common rotation (any orthogonal 3x3 matrix) and by relabelling the molecules (sites and eigenvector rows
   permuted together); for an orthogonal eigenvector matrix they add up to the sum of squared site dipoles *)
Theorem c11_dipole_strength_symmetries : forall (R : StarRing) (n : nat) (S d : nat -> nat -> R),
  (forall c a, dstr n S (fun j k => rmul R c (d j k)) a = rmul R (rmul R c c) (dstr n S d a)) /\
  (forall Q a, orthogonal3 Q -> dstr n S (rotate Q d) a = dstr n S d a) /\
  (forall sigma a, Permutation sigma (seq 0 n) ->
     dstr n (fun j b => S (nth j sigma 0%nat) b) (fun j k => d (nth j sigma 0%nat) k) a = dstr n S d a) /\
  ((forall i j, (i < n)%nat -> (j < n)%nat -> sum n (fun a => rmul R (S i a) (S j a)) = delta i j) ->
     sum n (fun a => dstr n S d a) = sum n (fun j => sum 3 (fun k => rmul R (d j k) (d j k)))).
Proof.
  intros R n S d. split; [intros c a; apply dstr_scale|]. split; [intros Q a HQ; now apply dstr_rotate|].
  split; [intros sigma a Hp; now apply dstr_relabel|apply dstr_sum_rule].
Qed.
Print Assumptions c11_dipole_strength_symmetries.

(* the sum over ALL points of the transform's grid only sees a(0) = 1: with the previous theorem the integral of the
   spectrum without the frequency prefactor is n dt sum_sites |d|^2, whatever the couplings and line shapes *)
Theorem c11_sum_rule_full_grid : forall (R : StarRing) (nt : nat) (zeta : R),
  (3 <= nt)%nat -> pow zeta (2 * nt - 2) = r1 R ->
  (forall c : Z, (c mod Z.of_nat (2 * nt - 2) <> 0)%Z ->
     sum (2 * nt - 2) (fun k => zpow (2 * nt - 2) zeta (c * Z.of_nat k)) = r0 R) ->
  forall hfft, hfft_spec nt zeta hfft -> forall a : list R, length a = nt ->
  sum (2 * nt - 2) (fun k => rmul R (radd R (r1 R) (r1 R)) (nth k (hfft a) (r0 R))) =
  rmul R (natR (2 * nt - 2)) (radd R (nth 0 a (r0 R)) (cj R (nth 0 a (r0 R)))).
Proof. intros R nt zeta H3 Hz orth hfft Hh a Ha. now apply (hfft_total nt H3 zeta orth). Qed.
Print Assumptions c11_sum_rule_full_grid.

(* purity: H, D (and R) are transformed by S at the start and by inv(S) at the end: back to the input *)
Theorem c11_transformed_back : forall (R : StarRing) (n : nat) (S S1 A : @mat R),
  meq n (mmul n S S1) mid -> meq n (mmul n S (mmul n (mmul n S1 (mmul n A S)) S1)) A.
Proof. intros R n S S1 A H. now apply transform_back. Qed.
Print Assumptions c11_transformed_back.

(* the whole basis discipline of the aggregate calculation (the program of calls is tied to the source on every run by
   gen_transforms_is_model of the generated file): every shared operator - Hamiltonian, dipole operator, supplied tensor -
   is handed back as it was found, with or without a supplied tensor *)
Theorem c11_calculation_restores_operators : forall (R : StarRing) (n : nat) (S S1 : @mat R) (with_tensor : bool) (o : tobj) (A : @mat R),
  meq n (mmul n S S1) mid -> meq n (trun n S S1 with_tensor purity_prog o A) A.
Proof. intros R n S S1 wt o A H. now apply purity_prog_restores. Qed.
Print Assumptions c11_calculation_restores_operators.

(* ---- exciton line shapes: the energy-gap correlation function of exciton state n+1 built by _excitonic_coft ---- *)
(* relabelling the molecules (sites, eigenvector rows and the matrix of bath correlation functions permuted together) leaves
   the correlation function - hence the line shape g_a(t) - of every exciton state unchanged *)
Theorem c11_exciton_coft_relabel : forall (R : StarRing) (na : nat) sigma (S C S' C' : nat -> nat -> R) n,
  Permutation sigma (seq 0 na) ->
  (forall k, (k < na)%nat -> S' (k + 1)%nat (n + 1)%nat = S (nth k sigma 0%nat + 1)%nat (n + 1)%nat) ->
  (forall k l, (k < na)%nat -> (l < na)%nat -> C' k l = C (nth k sigma 0%nat) (nth l sigma 0%nat)) ->
  exc_coft na S' C' n = exc_coft na S C n.
Proof. exact (@exc_coft_relabel). Qed.
Print Assumptions c11_exciton_coft_relabel.

(* independent baths: the site correlation functions enter with the fourth powers of the eigenvector COLUMN of the state *)
Theorem c11_exciton_coft_uncorrelated : forall (R : StarRing) (na : nat) (S C : nat -> nat -> R) (c : nat -> R) n,
  (forall k l, (k < na)%nat -> (l < na)%nat -> C k l = rmul R (c k) (delta k l)) ->
  exc_coft na S C n = sum na (fun k => rmul R (rmul R (exc_weight S n k) (exc_weight S n k)) (c k)).
Proof. exact (@exc_coft_uncorrelated). Qed.
Print Assumptions c11_exciton_coft_uncorrelated.

(* ---- the programs of the code (skeletons instantiated from the source on every run, Proofs/C11gen.v) ---- *)
(* data = line(1); for ii in range(2, dim): data += line(ii)  is the model's sum of lines over the transitions 1 .. dim-1 *)
Theorem c11_transition_loop_program : forall (R : StarRing) (hfft : list R -> list R) (dim : nat) (dt : R) (l0 : list R)
  (line : Z -> list R) (L : nat -> R * list R) lo hi,
  (2 <= dim)%nat -> lo = 2%Z -> hi = Z.of_nat dim ->
  l0 = one_transition hfft (fst (L 1%nat)) dt (snd (L 1%nat)) ->
  (forall a, (2 <= a < dim)%nat -> line (Z.of_nat a) = one_transition hfft (fst (L a)) dt (snd (L a))) ->
  sum_skel l0 line lo hi = spectrum hfft dt (map L (seq 1 (dim - 1))).
Proof. exact (@sum_skel_is_spectrum). Qed.
Print Assumptions c11_transition_loop_program.

(* the axis the calculators re-create, FrequencyAxis(st, Nt, do) with st = data[Nt//2] of bootstrap's shifted axis and do its
   step, is point by point the axis of the faithful (Pinned) model - the one c11_axis_alignment_refuted is about *)
Theorem c11_returned_axis_program : forall (K : Fld) (tp : K) s nt dt rwa w (st stp : K) (n : nat) p,
  (1 <= nt)%nat -> freq_axis_of K tp (mkAxis s nt dt UpperHalf (f0 K)) = Some w ->
  n = nt -> st = fadd K (point K w (nt / 2)) rwa -> stp = a_step w ->
  returned_axis_point K tp Pinned nt dt rwa p = Some (point K (mkAxis st n stp Complete (f0 K)) p).
Proof. exact returned_axis_is_pinned. Qed.
Print Assumptions c11_returned_axis_program.

(* ---- non-vacuity ---- *)
(* the pinned axis exists and is off at every position, the repaired one is on (Nt = 6, exact rationals) *)
Example c11_example_alignment :
  map (aligned Pinned (44 # 7) 6 (1 # 2) (3 # 1)) (seq 0 6) = [false; false; false; false; false; false] /\
  map (aligned Repaired (44 # 7) 6 (1 # 2) (3 # 1)) (seq 0 6) = [true; true; true; true; true; true].
Proof. split; vm_compute; reflexivity. Qed.

(* exciton correlation function of a dimer on integers: S = [[1,0,0],[0,2,1],[0,-1,2]] (columns 1, 2 = excitons), independent
   baths c = (3, 5): state 1 gets 2^4*3 + 1^4*5 = 53, state 2 gets 1^4*3 + 2^4*5 = 83; swapping the two molecules changes nothing *)
Example c11_example_coft :
  let S : nat -> nat -> ZR := fun i j => nth j (nth i [[1; 0; 0]; [0; 2; 1]; [0; -1; 2]] [])%Z 0%Z in
  let C : nat -> nat -> ZR := fun k l => nth l (nth k [[3; 0]; [0; 5]] [])%Z 0%Z in
  let S' : nat -> nat -> ZR := fun i j => nth j (nth i [[1; 0; 0]; [0; -1; 2]; [0; 2; 1]] [])%Z 0%Z in
  let C' : nat -> nat -> ZR := fun k l => nth l (nth k [[5; 0]; [0; 3]] [])%Z 0%Z in
  (exc_coft 2 S C 0 = 53 /\ exc_coft 2 S C 1 = 83 /\ exc_coft 2 S' C' 0 = 53 /\ exc_coft 2 S' C' 1 = 83)%Z.
Proof. vm_compute. repeat split; reflexivity. Qed.
