(* C05 — energy-units management is transparent and contexts restore units.
   Statements only; proofs in Proofs/C05.v, model in Model/C05.v.  Conversions are stated over the
   rationals (every float64 is a rational) for arbitrary non-zero conversion factors. *)
From Coq Require Import ZArith List Bool QArith.
From QV Require Import Model.C05 Proofs.C05.
Import ListNotations.

(* a quantity supplied under u and read under v is the exact conversion between the two units, for all
   11 x 11 pairs; "nm" is a wavelength, i.e. converts reciprocally *)
Theorem c05_conversion_exact : forall (fac : eunit -> Q), (forall u, ~ fac u == 0) ->
  forall u v x, (is_nm u = true \/ is_nm v = true -> ~ x == 0) ->
  convert fac u v x ==
    match is_nm u, is_nm v with
    | false, false => x * fac u / fac v
    | true, false => 1 / (x * fac u * fac v)
    | false, true => 1 / (x * fac u * fac v)
    | true, true => x * fac u / fac v
    end.
Proof. exact conv_exact. Qed.
Print Assumptions c05_conversion_exact.

Theorem c05_roundtrip_and_composition : forall (fac : eunit -> Q), (forall u, ~ fac u == 0) ->
  (forall u x, (is_nm u = true -> ~ x == 0) -> convert fac u u x == x) /\
  (forall u v w x, ~ x == 0 -> convert fac v w (convert fac u v x) == convert fac u w x).
Proof.
  intros fac Hf. split; [exact (roundtrip fac Hf)|]. intros u v w x Hx. apply (conv_compose fac Hf); auto.
Qed.
Print Assumptions c05_roundtrip_and_composition.

Theorem c05_array_elements : forall (fac : eunit -> Q), (forall u, ~ fac u == 0) -> forall u,
  (to_int_elt fac u 0 == 0 /\ to_cur_elt fac u 0 == 0) /\
  (forall x, ~ x == 0 -> to_int_elt fac u x == to_int fac u x /\ to_cur_elt fac u x == to_cur fac u x).
Proof. intros fac Hf u. split; [exact (elt_zero fac u)|intros x Hx; exact (elt_nonzero fac u x Hx)]. Qed.
Print Assumptions c05_array_elements.

(* lengths: supplied under u and read under v is the exact ratio of the two factors, for all 7 x 7 pairs *)
Theorem c05_length_conversion_exact : forall (facl : lunit -> Q), (forall u, ~ facl u == 0) ->
  (forall u v x, convert_l facl u v x == x * facl u / facl v) /\
  (forall u x, convert_l facl u u x == x) /\
  (forall u v w x, convert_l facl v w (convert_l facl u v x) == convert_l facl u w x).
Proof.
  intros facl Hf. split; [exact (conv_l_exact facl)|]. split; [exact (roundtrip_l facl Hf)|exact (conv_l_compose facl Hf)].
Qed.
Print Assumptions c05_length_conversion_exact.

(* every program of (nested) energy/length contexts, exceptions, handlers and builds restores units,
   nesting counter and flag, whether it ends normally or by an exception *)
Theorem c05_contexts_restore_units : forall p, repaired p = true -> forall s, consistent s ->
  let '(s', r, o) := exec p s in
  cur_e s' = cur_e s /\ cur_l s' = cur_l s /\ count s' = count s /\ consistent s'.
Proof. exact ctx_restore. Qed.
Print Assumptions c05_contexts_restore_units.

Theorem c05_context_sets_requested_units : forall u body s,
  let '(_, _, o) := exec (PWithE u (PSeq PObs body)) s in hd_error o = Some (u, cur_l s).
Proof. exact with_sets_units. Qed.
Print Assumptions c05_context_sets_requested_units.

(* the pinned Aggregate.build (raw set/unset around a body that itself opens a context, or that raises)
   leaves its caller in internal units *)
Theorem c05_raw_switch_refuted : exists p s, consistent s /\
  (let '(s', _, _) := exec p s in cur_e s' <> cur_e s) /\ p = PBuild RawSwitch (PWithE E_int PSkip).
Proof.
  exists (PBuild RawSwitch (PWithE E_int PSkip)), (mkU E_cm L_A None None 1 true).
  split; [split; [discriminate|reflexivity]|]. split; [vm_compute; discriminate|reflexivity].
Qed.
Print Assumptions c05_raw_switch_refuted.

Example c05_example :
  let p := PWithE E_cm (PSeq PObs (PSeq (PTry (PWithE E_eV (PSeq PObs PRaise))) (PSeq PObs (PBuild ContextSwitch (PWithE E_int PObs))))) in
  let '(s', r, o) := exec p (mkU E_fs L_A None None 0 false) in
  (cur_e s', r, map fst o, count s', in_eu s') = (E_fs, false, [E_cm; E_eV; E_cm; E_int], 0%Z, false).
Proof. vm_compute. reflexivity. Qed.
