(* C20 — distributed work ranges partition the index range exactly.
   Only statements, closed by [exact]; proofs are in Proofs/C20.v, the model in Model/C20.v. *)
From Coq Require Import ZArith List Bool.
From QV Require Import Model.C20 Proofs.C20 Model.C20regions Proofs.C20regions.
Import ListNotations.
Open Scope Z_scope.

(* contiguous: first block starts at start, consecutive blocks abut, last one ends at stop *)
Theorem c20_contiguous : forall size start stop, 1 <= size ->
  fst (range_of FromStart size start stop 0) = start /\
  (forall r, 0 <= r -> r + 1 < size ->
     snd (range_of FromStart size start stop r) = fst (range_of FromStart size start stop (r + 1))) /\
  snd (range_of FromStart size start stop (size - 1)) = stop.
Proof.
  intros size start stop Hs. split; [exact (first_block_starts size start stop Hs)|].
  split; [intros r; exact (blocks_abut size start stop r Hs)|exact (last_block_stops size start stop Hs)].
Qed.
Print Assumptions c20_contiguous.

Theorem c20_balanced : forall size start stop r r', 1 <= size -> 0 <= r < size -> 0 <= r' < size ->
  let len x := snd (range_of FromStart size start stop x) - fst (range_of FromStart size start stop x) in
  -1 <= len r - len r' <= 1.
Proof. exact lengths_differ_by_at_most_one. Qed.
Print Assumptions c20_balanced.

(* pairwise disjoint and covering: every index of the range lies in exactly one block *)
Theorem c20_exactly_one_block : forall size start stop i, 1 <= size -> start <= i < stop ->
  exists r, (0 <= r < size /\ In i (block FromStart size start stop r)) /\
    forall r', 0 <= r' < size -> In i (block FromStart size start stop r') -> r' = r.
Proof. exact exactly_one_block. Qed.
Print Assumptions c20_exactly_one_block.

(* the blocks, concatenated in rank order, are the serial range as a list: nothing outside the
   range is ever visited and nothing twice *)
Theorem c20_blocks_are_the_range : forall size start stop, 1 <= size -> start <= stop ->
  all_blocks FromStart size start stop = zrange start stop.
Proof. exact blocks_concat_is_range. Qed.
Print Assumptions c20_blocks_are_the_range.

Theorem c20_empty_range : forall size start stop, 1 <= size -> stop < start ->
  (forall r, 0 <= r < size -> block FromStart size start stop r = []) /\
  all_blocks FromStart size start stop = [].
Proof.
  intros size start stop Hs Hss. split; [intros r; exact (block_empty_when_reversed size start stop r Hs Hss)|
  exact (blocks_concat_reversed size start stop Hs Hss)].
Qed.
Print Assumptions c20_empty_range.

Theorem c20_short_range : forall size start stop r, 1 <= size -> 0 <= stop - start < size -> 0 <= r < size ->
  let len := snd (range_of FromStart size start stop r) - fst (range_of FromStart size start stop r) in
  len = 0 \/ len = 1.
Proof. exact short_range_blocks. Qed.
Print Assumptions c20_short_range.

(* sum-reduced results equal the serial result, in every monoid *)
Theorem c20_sum_reduce : forall (A : Type) (op : A -> A -> A) (e : A),
  (forall x y z, op x (op y z) = op (op x y) z) -> (forall x, op e x = x) ->
  forall (f : Z -> A) size start stop, 1 <= size -> start <= stop ->
  msum A op e (map (fun r => msum A op e (map f (block FromStart size start stop (Z.of_nat r)))) (seq 0 (Z.to_nat size)))
  = msum A op e (map f (zrange start stop)).
Proof. exact reduce_eq_serial. Qed.
Print Assumptions c20_sum_reduce.

(* ... also inside nested parallel regions and in serial runs, where nothing is shared and the
   reduction is the identity: on every process the all-reduced value is the serial one *)
Theorem c20_allreduce_any_level : forall (A : Type) (op : A -> A -> A) (e : A),
  (forall x y z, op x (op y z) = op (op x y) z) -> (forall x, op e x = x) ->
  forall (f : Z -> A) level size start stop rank, 1 <= size -> start <= stop ->
  after_allreduce op e level size
    (fun r => msum A op e (map f (api_block level FromStart size start stop (Z.of_nat r)))) rank
  = msum A op e (map f (zrange start stop)).
Proof. exact allreduce_eq_serial. Qed.
Print Assumptions c20_allreduce_any_level.

Theorem c20_list_and_array_helpers : forall size len, 1 <= size -> 0 <= len ->
  flat_map (fun r => list_block FromStart size len (Z.of_nat r)) (seq 0 (Z.to_nat size)) = zrange 0 len /\
  flat_map (fun r => array_block true FromStart size len (Z.of_nat r)) (seq 0 (Z.to_nat size)) = zrange 0 len.
Proof. intros size len Hs Hl. split; [exact (list_blocks_partition size len Hs Hl)|exact (array_blocks_partition size len Hs Hl)]. Qed.
Print Assumptions c20_list_and_array_helpers.

(* the two defects of the pinned tree, as refutations of the same statements on the faithful
   variants; the correspondence check decides which variant the code implements now *)
Theorem c20_start_ignored_refuted : exists size start stop, 1 <= size /\ start <= stop /\
  all_blocks FromZero size start stop <> zrange start stop.
Proof.
  exists 3, 5, 12. split; [discriminate|]. split; [discriminate|].
  destruct start_ignored_witness as [-> ->]. discriminate.
Qed.
Print Assumptions c20_start_ignored_refuted.

Theorem c20_array_return_index_refuted : exists size len, 1 <= size /\ 0 <= len /\
  flat_map (fun r => array_block false FromStart size len (Z.of_nat r)) (seq 0 (Z.to_nat size)) <> zrange 0 len.
Proof.
  exists 2, 3. split; [discriminate|]. split; [discriminate|].
  change (Z.to_nat 2) with 2%nat. rewrite array_index_witness. vm_compute. discriminate.
Qed.
Print Assumptions c20_array_return_index_refuted.

(* the callers inside the package all use start = 0, where both variants coincide *)
Theorem c20_variants_agree_at_zero : forall size stop r,
  range_of FromZero size 0 stop r = range_of FromStart size 0 stop r.
Proof. exact fromzero_ok_at_zero. Qed.
Print Assumptions c20_variants_agree_at_zero.

(* parallel regions: any well-nested sequence of start/finish_parallel_region never raises and moves level and
   region counter with the nesting depth; a balanced block restores the configuration exactly *)
Theorem c20_regions_track_nesting_depth : forall ops (sh : bool) s d,
  nested d ops = true -> 0 <= d -> (if sh then d else 0) <= r_level s ->
  r_raised sh s ops = false /\
  r_run sh s ops = mkR (r_level s + (if sh then depth_after d ops - d else 0)) (r_region s + (depth_after d ops - d)).
Proof. exact nested_tracks_depth. Qed.
Print Assumptions c20_regions_track_nesting_depth.

Theorem c20_balanced_regions_restore : forall ops (sh : bool) s d,
  nested d ops = true -> depth_after d ops = d -> 0 <= d -> (if sh then d else 0) <= r_level s ->
  r_raised sh s ops = false /\ r_run sh s ops = s.
Proof. exact balanced_restores. Qed.
Print Assumptions c20_balanced_regions_restore.

(* so the helpers hand out the partition exactly at nesting depth 1 - also after nested regions were opened and closed -
   and the whole range at every other depth *)
Theorem c20_partition_exactly_at_depth_one : forall ops g0 size start stop, nested 0 ops = true -> 1 <= size -> start <= stop ->
  let level := r_level (r_run true (mkR 0 g0) ops) in
  (depth_after 0 ops = 1 ->
     flat_map (fun r => api_block level FromStart size start stop (Z.of_nat r)) (seq 0 (Z.to_nat size)) = zrange start stop) /\
  (depth_after 0 ops <> 1 -> forall r, api_block level FromStart size start stop r = zrange start stop).
Proof. exact regions_and_blocks. Qed.
Print Assumptions c20_partition_exactly_at_depth_one.

(* the helpers as they are called: work is handed out in blocks exactly where reduce / allreduce sum over the processes,
   the whole range where they leave the data alone, and both refuse together (outside a declared region) *)
Theorem c20_shared_exactly_where_summed : forall region level v size start stop rank,
  match reduce_mode region level with
  | RSummed => helper region level v size start stop rank = Handed (block v size start stop rank)
  | RUntouched => helper region level v size start stop rank = Handed (zrange start stop)
  | RRefused => helper region level v size start stop rank = Refused
  end.
Proof. exact shared_exactly_where_summed. Qed.
Print Assumptions c20_shared_exactly_where_summed.

(* from a new configuration, helpers and reductions refuse exactly outside all (well-nested) regions *)
Theorem c20_refused_exactly_outside_regions : forall ops (sh : bool) v size start stop rank, nested 0 ops = true ->
  let s := r_run sh (mkR 0 0) ops in
  (helper (r_region s) (r_level s) v size start stop rank = Refused <-> depth_after 0 ops = 0) /\
  (reduce_mode (r_region s) (r_level s) = RRefused <-> depth_after 0 ops = 0).
Proof. exact refused_exactly_outside_regions. Qed.
Print Assumptions c20_refused_exactly_outside_regions.

Example c20_helper_example :
  nested 0 [RStart; RStart; RFinish] = true /\
  (let s := r_run true (mkR 0 0) [RStart; RStart; RFinish] in helper (r_region s) (r_level s) FromStart 3 5 12 1) = Handed [7; 8; 9] /\
  (let s := r_run true (mkR 0 0) [RStart; RStart] in helper (r_region s) (r_level s) FromStart 3 5 7 1) = Handed [5; 6] /\
  (let s := r_run true (mkR 0 0) [RStart; RFinish] in helper (r_region s) (r_level s) FromStart 3 5 7 1) = Refused.
Proof. repeat split; vm_compute; reflexivity. Qed.

(* the way the library's own routines use the machinery (open a region, loop over a distributed range, all-reduce, close): from
   any consistent configuration, nested or not, with or without MPI, every process ends with the serial sum and the configuration
   is restored *)
Theorem c20_region_protocol_reduces_to_serial : forall (A : Type) (op : A -> A -> A) (e : A),
  (forall x y z, op x (op y z) = op (op x y) z) -> (forall x, op e x = x) ->
  forall (f : Z -> A) (sh : bool) s size start stop rank, 1 <= size -> start <= stop -> 0 <= r_region s -> 0 <= r_level s ->
  let s1 := fst (r_step sh s RStart) in
  helper (r_region s1) (r_level s1) FromStart size start stop (Z.of_nat rank)
    = Handed (api_block (r_level s1) FromStart size start stop (Z.of_nat rank)) /\
  reduce_mode (r_region s1) (r_level s1) <> RRefused /\
  after_allreduce op e (r_level s1) size
    (fun r => msum A op e (map f (api_block (r_level s1) FromStart size start stop (Z.of_nat r)))) rank
  = msum A op e (map f (zrange start stop)) /\
  r_step sh s1 RFinish = (s, false).
Proof. exact region_protocol_reduces_to_serial. Qed.
Print Assumptions c20_region_protocol_reduces_to_serial.

Example c20_protocol_example :
  well_formed [PS; PQ 0; PA true; PF; PRet] = true /\ well_formed [PS; PQ 0; PF] = false /\ well_formed [PS; PQ 0; PF; PA true] = false /\
  r_step true (fst (r_step true (mkR 1 1) RStart)) RFinish = (mkR 1 1, false).
Proof. repeat split. Qed.

(* non-vacuity: a concrete non-trivial instance *)
Example c20_example : ranges FromStart 3 5 12 = [(5,7); (7,10); (10,12)].
Proof. vm_compute. reflexivity. Qed.
