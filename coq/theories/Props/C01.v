(* C01 — relaxation generators preserve trace and Hermiticity.
   Statements only; proofs in Proofs/C01.v, model in Model/C01.v.  Everything is stated over an arbitrary
   commutative ring with conjugation (so over the complex rationals, which contain every pair of float64
   values), for every dimension n, every number of bath components Nb, and - since a time-dependent tensor is
   assembled index by index from Lambda_m(t) - for every time index.
     trace_pres T :  forall c d < n,  sum_a T[a,a,c,d] = 0
     herm_pres  T :  forall a b c d < n,  conj T[a,b,c,d] = T[b,a,d,c]                                   *)
From Coq Require Import ZArith List Bool Arith.
From QV Require Import Base.Alg Base.Sums Base.Mat Base.Tens Model.C01 Proofs.C01.
Import ListNotations.

(* Redfield (time independent): trace with NO hypothesis on the operators; Hermiticity for real K_m
   (they are float64 arrays in the code), Lambda_m arbitrary complex *)
Theorem c01_redfield : forall (R : StarRing) n Nb (Km Lm : nat -> @mat R),
  trace_pres n (redfield_tensor n Nb Km Lm) /\
  ((forall m, (m < Nb)%nat -> real_mat n (Km m)) -> herm_pres n (redfield_tensor n Nb Km Lm)).
Proof. intros R n Nb Km Lm. split; [apply redfield_trace|apply redfield_herm]. Qed.
Print Assumptions c01_redfield.

(* the assembly loop itself, for whatever Kd and Ld its caller passes *)
Theorem c01_assembly_traceless_unconditionally : forall (R : StarRing) n Nb (Km Lm Ld : nat -> @mat R),
  trace_pres n (convert_ops n Nb Km Lm Ld) /\ trace_pres n (td_convert_ops n Nb Km Lm Ld).
Proof. intros R n Nb Km Lm Ld. split; [apply convert_trace|apply td_convert_trace]. Qed.
Print Assumptions c01_assembly_traceless_unconditionally.

(* time-dependent Redfield at any time index (Lambda_m(t) arbitrary): K_m real symmetric *)
Theorem c01_td_redfield : forall (R : StarRing) n Nb (Km Lm : nat -> @mat R),
  trace_pres n (td_redfield_tensor n Nb Km Lm) /\
  ((forall m, (m < Nb)%nat -> real_mat n (Km m)) -> (forall m, (m < Nb)%nat -> sym_mat n (Km m)) ->
     herm_pres n (td_redfield_tensor n Nb Km Lm) /\
     teq n (td_redfield_tensor n Nb Km Lm) (redfield_tensor n Nb Km Lm)).
Proof.
  intros R n Nb Km Lm. split; [apply td_redfield_trace|]. intros HK HS.
  split; [now apply td_redfield_herm|now apply td_eq_ti].
Qed.
Print Assumptions c01_td_redfield.

(* Lindblad form: real operators and real rates (hg m = rate_m / 2) *)
Theorem c01_lindblad : forall (R : StarRing) n Nb (hg : nat -> R) (Km : nat -> @mat R),
  trace_pres n (lindblad_tensor n Nb hg Km) /\
  ((forall m, (m < Nb)%nat -> real_mat n (Km m)) -> (forall m, (m < Nb)%nat -> is_real R (hg m)) ->
     herm_pres n (lindblad_tensor n Nb hg Km)).
Proof. intros R n Nb hg Km. split; [apply lindblad_trace|apply lindblad_herm]. Qed.
Print Assumptions c01_lindblad.

(* Foerster: real rates completed by updateStructure (half + half = 1 is the ring's 1/2), then pure dephasing
   with the repaired sign convention h_a + conj h_b *)
Theorem c01_foerster : forall (R : StarRing) n (half : R) (K : @mat R) (h : nat -> R),
  trace_pres n (foerster_tensor n half K) /\
  trace_pres n (add_dephasing DephRepaired h (foerster_tensor n half K)) /\
  (is_real R half -> real_mat n K ->
     herm_pres n (foerster_tensor n half K) /\ herm_pres n (add_dephasing DephRepaired h (foerster_tensor n half K))).
Proof.
  intros R n half K h. split; [apply foerster_trace|]. split; [apply add_dephasing_trace, foerster_trace|].
  intros Hh HK. split; [now apply foerster_herm|apply add_dephasing_repaired_herm; now apply foerster_herm].
Qed.
Print Assumptions c01_foerster.

(* the pinned pure dephasing h_a + h_b breaks Hermiticity (two levels, h_1 = 1 + i); repaired by a fix: commit *)
Theorem c01_pinned_dephasing_refuted :
  cj GZ (add_dephasing DephPinned deph_h_demo zero_tens 0 1 0 1)%nat = (-1, 1)%Z /\
  add_dephasing DephPinned deph_h_demo zero_tens 1%nat 0%nat 1%nat 0%nat = (-1, -1)%Z /\
  cj GZ (add_dephasing DephRepaired deph_h_demo zero_tens 0 1 0 1)%nat = add_dephasing DephRepaired deph_h_demo zero_tens 1%nat 0%nat 1%nat 0%nat.
Proof. exact add_dephasing_pinned_witness. Qed.
Print Assumptions c01_pinned_dephasing_refuted.

(* updateStructure in general: what it needs of its input *)
Theorem c01_update_structure : forall (R : StarRing) n (half : R) (T : @tens R),
  ((forall c, (c < n)%nat -> T c c c c = r0 R) ->
   (forall c d, (c < n)%nat -> (d < n)%nat -> c <> d -> sum n (fun a => T a a c d) = r0 R) ->
   trace_pres n (update_structure n half T)) /\
  (is_real R half -> herm_pres n T -> herm_pres n (update_structure n half T)).
Proof. intros R n half T. split; [apply update_structure_trace|apply update_structure_herm]. Qed.
Print Assumptions c01_update_structure.

(* combined Redfield-Foerster: adding real Foerster rates (and their depopulation) to any tensor with the
   identities; sums and real multiples *)
Theorem c01_combination : forall (R : StarRing) n (KF : @mat R) (T U : @tens R) (x : R),
  (trace_pres n T -> trace_pres n (rf_add n KF T)) /\
  (real_mat n KF -> herm_pres n T -> herm_pres n (rf_add n KF T)) /\
  (trace_pres n T -> trace_pres n U -> trace_pres n (tadd T U)) /\
  (herm_pres n T -> herm_pres n U -> herm_pres n (tadd T U)) /\
  (trace_pres n T -> trace_pres n (tscale x T)) /\
  (is_real R x -> herm_pres n T -> herm_pres n (tscale x T)).
Proof.
  intros R n KF T U x. split; [apply rf_add_trace|]. split; [apply rf_add_herm|]. split; [apply tadd_trace|].
  split; [apply tadd_herm|]. split; [apply tscale_trace|apply tscale_herm].
Qed.
Print Assumptions c01_combination.

(* secularisation: keeps exactly the population-transfer and coherence-decay elements, unchanged, zeroes every
   other element, and keeps both identities *)
Theorem c01_secularization : forall (R : StarRing) n (T : @tens R),
  (forall a b c d, ((a = b /\ c = d) \/ (a = c /\ b = d) -> secularize T a b c d = T a b c d) /\
                   (~ ((a = b /\ c = d) \/ (a = c /\ b = d)) -> secularize T a b c d = r0 R)) /\
  (forall a b, secularize T a a b b = T a a b b /\ secularize T a b a b = T a b a b) /\
  (trace_pres n T -> trace_pres n (secularize T)) /\
  (herm_pres n T -> herm_pres n (secularize T)).
Proof.
  intros R n T. split; [intros a b c d; apply secularize_spec|]. split; [intros a b; apply secularize_population_and_decay|].
  split; [apply secularize_trace|apply secularize_herm].
Qed.
Print Assumptions c01_secularization.

(* in every basis: the (repaired) two-pass transformation keeps the trace identity for any invertible S and
   the Hermiticity identity for any unitary S (S1 = S^dagger); real orthogonal S is the special case *)
Theorem c01_every_basis : forall (R : StarRing) n (S1 S : @mat R) (T : @tens R),
  (meq n (mmul n S S1) (@mid R) -> trace_pres n T -> trace_pres n (ttrans n S1 S T)) /\
  (dagger_of n S1 S -> herm_pres n T -> herm_pres n (ttrans n S1 S T)) /\
  (real_mat n S -> transpose_of n S1 S -> dagger_of n S1 S).
Proof.
  intros R n S1 S T. split; [apply ttrans_trace|]. split; [apply ttrans_herm|apply orthogonal_is_dagger].
Qed.
Print Assumptions c01_every_basis.

(* the hypotheses on K_m are consequences of how the code builds them: K_m = S^T P_m S with S real orthogonal (eigh of a
   real symmetric Hamiltonian) and P_m real symmetric (site projectors) is real and symmetric *)
Theorem c01_transformed_site_operators_real_symmetric : forall (R : StarRing) n (S1 S P : @mat R),
  transpose_of n S1 S -> (sym_mat n P -> sym_mat n (sim n S1 S P)) /\
  (real_mat n S1 -> real_mat n S -> real_mat n P -> real_mat n (sim n S1 S P)).
Proof. intros R n S1 S P HT. split; [now apply sim_sym|apply sim_real]. Qed.
Print Assumptions c01_transformed_site_operators_real_symmetric.

(* non-vacuity: integer operators satisfying the hypotheses exist and give a non-zero tensor *)
Example c01_hypotheses_satisfiable :
  let K : nat -> @mat GZ := fun _ => mat_of (R:=GZ) [[(1,0); (2,0)]; [(2,0); (0,0)]]%Z in
  let L : nat -> @mat GZ := fun _ => mat_of (R:=GZ) [[(1,1); (0,2)]; [(3,0); (1,-1)]]%Z in
  real_mat 2 (K 0%nat) /\ sym_mat 2 (K 0%nat) /\ redfield_tensor 2 1 K L 0%nat 1%nat 0%nat 1%nat <> r0 GZ.
Proof.
  cbv zeta. split; [|split].
  - intros i j Hi Hj. destruct i as [|[|i]], j as [|[|j]]; try reflexivity; exfalso; inversion Hi as [|? H1]; inversion Hj as [|? H2];
      try (inversion H1 as [|? H3]; inversion H3); try (inversion H2 as [|? H4]; inversion H4).
  - intros i j Hi Hj. destruct i as [|[|i]], j as [|[|j]]; try reflexivity; exfalso; inversion Hi as [|? H1]; inversion Hj as [|? H2];
      try (inversion H1 as [|? H3]; inversion H3); try (inversion H2 as [|? H4]; inversion H4).
  - vm_compute. discriminate.
Qed.
