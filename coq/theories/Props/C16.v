(* C16 — hierarchical equations: complete index set, consistent links, valid states.
   Statements only; proofs in Proofs/C16.v, Proofs/C16rhs.v and Proofs/C16diag.v, model in Model/C16.v. *)
From Coq Require Import ZArith List Bool Arith.
From QV Require Import Base.Alg Base.Sums Base.Mat Base.Taylor Model.C16 Proofs.C16 Proofs.C16rhs Proofs.C16count Proofs.C16diag Proofs.C16sysops.
Import ListNotations.

(* level j of the generated hierarchy holds every multi-index over N baths of total order j, each once:
   for every number of baths and every depth *)
Theorem c16_levels_complete_and_duplicate_free : forall N depth j, (j <= depth)%nat ->
  NoDup (nth j (gen_indices N depth) []) /\
  forall m, In m (nth j (gen_indices N depth) []) <-> (length m = N /\ list_sum m = j).
Proof. intros N depth j Hj. exact (indices_complete_nodup N depth j Hj). Qed.
Print Assumptions c16_levels_complete_and_duplicate_free.

(* the binomial level count: level j has cnt N j entries, where cnt has the boundary values and obeys the Pascal rule that
   characterise the binomial coefficients C(N+j-1, j) (cnt (S N) 0 = 1, cnt 0 (S k) = 0, cnt (S N) (S k) = cnt (S N) k + cnt N (S k)) *)
Theorem c16_level_sizes_are_binomial : forall N depth j, (j <= depth)%nat ->
  length (nth j (gen_indices N depth) []) = cnt N j /\
  cnt 0 0 = 1%nat /\ (forall k, cnt 0 (S k) = 0%nat) /\ (forall M, cnt (S M) 0 = 1%nat) /\
  (forall M k, cnt (S M) (S k) = (cnt (S M) k + cnt M (S k))%nat).
Proof.
  intros N depth j Hj. split; [apply level_count; exact (indices_complete_nodup N depth j Hj)|].
  split; [reflexivity|]. split; [intros k; reflexivity|]. split; [exact cnt_0|exact cnt_pascal].
Qed.
Print Assumptions c16_level_sizes_are_binomial.

Theorem c16_table_complete_once_by_levels : forall N depth,
  (forall m, In m (hinds N depth) <-> (length m = N /\ (list_sum m <= depth)%nat)) /\
  NoDup (hinds N depth) /\
  (forall a b, (a < b)%nat -> (b < length (hinds N depth))%nat ->
     (list_sum (nth a (hinds N depth) []) <= list_sum (nth b (hinds N depth) []))%nat) /\
  length (gen_indices N depth) = S depth.
Proof.
  intros N depth. split; [exact (hinds_complete N depth)|]. split; [exact (hinds_nodup N depth)|].
  split; [exact (hinds_sorted N depth)|exact (gen_indices_length N depth)].
Qed.
Print Assumptions c16_table_complete_once_by_levels.

(* raising and lowering links are mutually inverse ... *)
Theorem c16_links_mutually_inverse : forall N depth n k m, (k < N)%nat ->
  ((n < length (hinds N depth))%nat -> nm1 (hinds N depth) n k = Some m -> np1 (hinds N depth) m k = Some n) /\
  ((m < length (hinds N depth))%nat -> np1 (hinds N depth) m k = Some n -> nm1 (hinds N depth) n k = Some m).
Proof.
  intros N depth n k m Hk. split; [intros Hn; exact (links_down_up N depth n k m Hn Hk)|intros Hm; exact (links_up_down N depth n k m Hm Hk)].
Qed.
Print Assumptions c16_links_mutually_inverse.

(* ... and absent exactly at the boundaries: no lower neighbour iff the entry is 0, no upper one iff the
   total order equals the depth; the root is entry 0 and is never a raising target *)
Theorem c16_links_absent_exactly_at_boundaries : forall N depth n k,
  (n < length (hinds N depth))%nat -> (k < N)%nat ->
  (nm1 (hinds N depth) n k = None <-> nth k (nth n (hinds N depth) []) 0%nat = 0%nat) /\
  (np1 (hinds N depth) n k = None <-> list_sum (nth n (hinds N depth) []) = depth) /\
  nth 0 (hinds N depth) [] = repeat 0%nat N /\ np1 (hinds N depth) n k <> Some 0%nat.
Proof.
  intros N depth n k Hn Hk. split; [exact (no_lower_link_iff N depth n k Hn Hk)|].
  split; [exact (no_upper_link_iff N depth n k Hn Hk)|]. split; [exact (root_first N depth)|exact (raise_never_hits_root N depth n k Hn Hk)].
Qed.
Print Assumptions c16_links_absent_exactly_at_boundaries.

(* propagation: the trace of the reduced density matrix (ADO 0) is conserved exactly at every stored
   time, for every expansion order and step, whatever the other ADOs are ... *)
Theorem c16_trace_conserved : forall (R : StarRing) dim nb (H : list mi) HH Vs ii lam gam kBT two,
  nth 0 H [] = repeat 0%nat nb ->
  forall prefs nsteps (ado0 : nat -> @mat R),
  Forall (fun ado => mtr dim (ado 0%nat) = mtr dim (ado0 0%nat))
         (heom_traj dim nb H HH Vs ii lam gam kBT two prefs nsteps ado0).
Proof. intros R dim nb H HH Vs ii lam gam kBT two Hroot. exact (heom_trace_conserved dim nb H HH Vs ii lam gam kBT two Hroot). Qed.
Print Assumptions c16_trace_conserved.

(* ... and all ADOs, in particular the reduced density matrix, stay Hermitian *)
Theorem c16_stays_hermitian : forall (R : StarRing) dim nb (H : list mi) HH Vs ii lam gam kBT two,
  herm dim HH -> (forall k, herm dim (Vs k)) -> cj R ii = ropp R ii ->
  (forall k, is_real R (lam k)) -> (forall k, is_real R (gam k)) -> is_real R kBT -> is_real R two ->
  forall prefs nsteps (ado0 : nat -> @mat R), Forall (is_real R) prefs -> all_herm dim ado0 ->
  Forall (all_herm dim) (heom_traj dim nb H HH Vs ii lam gam kBT two prefs nsteps ado0).
Proof.
  intros R dim nb H HH Vs ii lam gam kBT two h1 h2 h3 h4 h5 h6 h7.
  exact (heom_stays_hermitian dim nb H HH Vs ii lam gam kBT two h1 h2 h3 h4 h5 h6 h7).
Qed.
Print Assumptions c16_stays_hermitian.

(* zero coupling strength: higher ADOs stay zero and ADO 0 obeys d rho = -i [H, rho] dt *)
Theorem c16_zero_coupling_is_closed_system : forall (R : StarRing) dim nb (H : list mi) HH Vs ii gam kBT two,
  nth 0 H [] = repeat 0%nat nb -> forall dt (ado : nat -> @mat R), higher_zero dim ado ->
  higher_zero dim (rhs dim nb H HH Vs ii (fun _ => r0 R) gam kBT two dt ado) /\
  meq dim (rhs dim nb H HH Vs ii (fun _ => r0 R) gam kBT two dt ado 0%nat)
          (mscale (ropp R dt) (mscale ii (comm dim HH (ado 0%nat)))).
Proof. intros R dim nb H HH Vs ii gam kBT two Hroot. exact (zero_coupling_rhs dim nb H HH Vs ii gam kBT two Hroot). Qed.
Print Assumptions c16_zero_coupling_is_closed_system.

(* ---- uncoupled sites: the exactly solvable case of the last clause.  Hamiltonian and system parts of the bath couplings
   diagonal (projectors on the sites).  What is proved: the populations of the reduced density matrix never move, for every
   depth, step, expansion order and number of steps; and every matrix element (a,b) of the whole propagation - of every ADO,
   at every stored time - is the propagation of its own scalar hierarchy with coefficients h_a - h_b, v_ka - v_kb, v_ka + v_kb:
   the matrix hierarchy decouples element by element.  What is NOT proved (validated by the check on real propagations): that
   the scalar hierarchy converges with depth to exp(-i w t - g(t)). *)
Theorem c16_uncoupled_populations_constant : forall (R : StarRing) dim nb (H : list mi) HH Vs ii lam gam kBT two,
  diagonal dim HH -> (forall k, diagonal dim (Vs k)) -> nth 0 H [] = repeat 0%nat nb ->
  forall prefs nsteps (ado0 : nat -> @mat R) a, (a < dim)%nat ->
  Forall (fun ado => ado 0%nat a a = ado0 0%nat a a) (heom_traj dim nb H HH Vs ii lam gam kBT two prefs nsteps ado0).
Proof.
  intros R dim nb H HH Vs ii lam gam kBT two h1 h2 h3 prefs nsteps ado0 a Ha.
  exact (heom_populations_constant dim nb H HH Vs ii lam gam kBT two h1 h2 h3 prefs nsteps ado0 a Ha).
Qed.
Print Assumptions c16_uncoupled_populations_constant.

Theorem c16_uncoupled_sites_decouple_elementwise : forall (R : StarRing) dim nb (H : list mi) HH Vs ii lam gam kBT two,
  diagonal dim HH -> (forall k, diagonal dim (Vs k)) ->
  forall prefs nsteps (ado0 : nat -> @mat R) a b, (a < dim)%nat -> (b < dim)%nat ->
  Forall2 (fun ado x => forall n, ado n a b = x n)
          (heom_traj dim nb H HH Vs ii lam gam kBT two prefs nsteps ado0)
          (scalar_traj nb H ii lam gam kBT two (rsub R (HH a a) (HH b b)) (fun k => rsub R (Vs k a a) (Vs k b b))
                       (fun k => radd R (Vs k a a) (Vs k b b)) prefs nsteps (fun n => ado0 n a b)).
Proof.
  intros R dim nb H HH Vs ii lam gam kBT two h1 h2 prefs nsteps ado0 a b Ha Hb.
  exact (heom_elementwise dim nb H HH Vs ii lam gam kBT two h1 h2 prefs nsteps ado0 a b Ha Hb).
Qed.
Print Assumptions c16_uncoupled_sites_decouple_elementwise.

(* the system parts of the bath couplings as the builders make them - stores of 1 on the diagonal of a zero operator, extracted from
   Aggregate._build and Molecule.get_SystemBathInteraction on every run (generated lemmas gen_agg_sysop_is_projector,
   gen_mol_sysop_is_projector) - are diagonal projectors: the hypothesis the two theorems above place on the couplings *)
Theorem c16_system_operators_are_diagonal_projectors : forall (R : StarRing) dim,
  (forall js, diagonal dim (site_projector (R := R) js) /\
              meq dim (mmul dim (site_projector (R := R) js) (site_projector js)) (site_projector js) /\
              (forall a b, stores_skel (R := R) (fun j => j) (fun j => j) js a b = site_projector js a b)) /\
  (forall lo hi, diagonal dim (block_projector (R := R) lo hi) /\
                 (forall a b, block_skel (R := R) lo hi lo hi (hi - lo) a b = block_projector lo hi a b)).
Proof.
  intros R dim. split.
  - intros js. split; [apply site_projector_diagonal|]. split; [apply site_projector_idempotent|apply stores_skel_is_projector].
  - intros lo hi. split; [apply block_projector_diagonal|apply block_skel_is_projector].
Qed.
Print Assumptions c16_system_operators_are_diagonal_projectors.

(* non-vacuity: projectors on two sites are diagonal (over the integers) *)
Example c16_example_uncoupled :
  and (@diagonal ZR 3 (fun i j => if Nat.eqb i j then Z.of_nat (i * 7) else 0%Z))
      (forall k, @diagonal ZR 3 (fun i j => if Nat.eqb i (S k) && Nat.eqb j (S k) then 1%Z else 0%Z)).
Proof.
  split; [|intros k]; intros i j Hi Hj Hne; cbn; destruct (Nat.eqb_spec i j); try contradiction; try reflexivity.
  destruct (Nat.eqb i (S k)) eqn:E1; destruct (Nat.eqb j (S k)) eqn:E2; try reflexivity.
  apply Nat.eqb_eq in E1, E2. congruence.
Qed.

(* non-vacuity *)
Example c16_example :
  gen_indices 2 2 = [[[0;0]]; [[1;0];[0;1]]; [[2;0];[1;1];[0;2]]]%nat /\
  nm1_table 2 2 = [[-1;-1]; [0;-1]; [-1;0]; [1;-1]; [2;1]; [-1;2]]%Z /\
  np1_table 2 2 = [[1;2]; [3;4]; [4;5]; [-1;-1]; [-1;-1]; [-1;-1]]%Z.
Proof. vm_compute. repeat split. Qed.
