(* C09 — bath correlation functions add linearly and carry consistent parameters.
   Statements only; proofs in Proofs/C09.v, model in Model/C09.v.  [gen] is the oracle that turns one
   component into data; every statement holds for every such oracle and every commutative ring. *)
From Coq Require Import ZArith List Bool QArith.
From QV Require Import Base.Alg Model.C09 Proofs.C09 Proofs.C09gen.
Import ListNotations.

(* the constructor builds the sum of its components' data and reorganisation energies *)
Theorem c09_constructor_sums_components : forall (R : StarRing) gen (cs : list (@comp R)) t,
  cs <> [] -> all_temp t cs -> ctor gen OwnFtype cs = Some (built gen cs t).
Proof. intros R gen. exact (ctor_spec gen). Qed.
Print Assumptions c09_constructor_sums_components.

(* a + b: for an analytically parameterised left operand and ANY right operand (value-defined too) at the
   same temperature: data, reorganisation energy add, components concatenate, cut-off is the larger *)
Theorem c09_add_is_linear : forall (R : StarRing) gen (a b : @cf R),
  consistent gen a -> temp_eqb (temp a) (temp b) = true ->
  add gen OwnFtype a b =
  Some (mkCf (comps a ++ comps b) (radd R (lamb a) (lamb b)) (temp a) (qmax (cutoff a) (cutoff b)) (radd R (data a) (data b))).
Proof. intros R gen. exact (add_spec gen). Qed.
Print Assumptions c09_add_is_linear.

(* every expression tree over analytically parameterised leaves at one temperature evaluates, and its
   data / reorganisation energy are the sums over the leaves' components in order *)
Theorem c09_any_tree : forall (R : StarRing) gen t (e : @expr R), all_leaves (good_leaf gen t) e ->
  exists r, eval gen OwnFtype e = Some r /\ good_leaf gen t r /\ comps r = leaf_comps e.
Proof. intros R gen. exact (eval_tree gen). Qed.
Print Assumptions c09_any_tree.

Theorem c09_grouping_irrelevant : forall (R : StarRing) gen t (e1 e2 : @expr R),
  all_leaves (good_leaf gen t) e1 -> all_leaves (good_leaf gen t) e2 -> leaf_comps e1 = leaf_comps e2 ->
  exists r1 r2, eval gen OwnFtype e1 = Some r1 /\ eval gen OwnFtype e2 = Some r2 /\
    data r1 = data r2 /\ lamb r1 = lamb r2 /\ comps r1 = comps r2 /\ temp r1 = temp r2.
Proof. intros R gen. exact (grouping_irrelevant gen). Qed.
Print Assumptions c09_grouping_irrelevant.

(* different temperatures are refused: by the constructor, by +, and by += without touching the target *)
Theorem c09_temperature_mismatch_refused : forall (R : StarRing) gen,
  (forall (cs1 cs2 : list (@comp R)) c t, cs1 <> [] -> all_temp t cs1 -> ctemp c <> t -> ctor gen OwnFtype (cs1 ++ c :: cs2) = None) /\
  (forall a b : @cf R, temp_eqb (temp a) (temp b) = false -> consistent gen a -> add gen OwnFtype a b = None) /\
  (forall x y : @cf R, temp_eqb (temp x) (temp y) = false -> iadd CheckThenMutate x y = (x, true)).
Proof.
  intros R gen. split; [exact (ctor_mixed_refused gen)|]. split; [exact (add_refused gen)|exact iadd_refused_unchanged].
Qed.
Print Assumptions c09_temperature_mismatch_refused.

Theorem c09_inplace_addition : forall (R : StarRing) gen io,
  (forall x y : @cf R, temp_eqb (temp x) (temp y) = true ->
     iadd io x y = (mkCf (comps x ++ comps y) (radd R (lamb x) (lamb y)) (temp x) (qmax (cutoff x) (cutoff y)) (radd R (data x) (data y)), false)) /\
  (forall cs t, cs <> [] -> all_temp t cs ->
     exists r, iadd_self gen OwnFtype io (built gen cs t) = Some (r, false) /\
       data r = radd R (suml (own gen) cs) (suml (own gen) cs) /\
       lamb r = radd R (suml (@clam R) cs) (suml (@clam R) cs) /\ comps r = cs ++ cs).
Proof. intros R gen io. split; [exact (iadd_spec io)|exact (iadd_self_doubles gen io)]. Qed.
Print Assumptions c09_inplace_addition.

(* spectral densities (spectraldensities.py: add_to_data / add_to_data2 carry no temperature test): a + b for a left
   operand that its constructor rebuilds from its parameters, and x += x *)
Theorem c09_spectral_density_add_is_linear : forall (R : StarRing) (sdctor : list (@comp R) -> option (@cf R)) (a b : @cf R),
  sdctor (comps a) = Some a ->
  sd_add sdctor a b = Some (mkCf (comps a ++ comps b) (radd R (lamb a) (lamb b)) (temp a) (cutoff a) (radd R (data a) (data b))) /\
  sd_iadd_self sdctor a = Some (mkCf (comps a ++ comps a) (radd R (lamb a) (lamb a)) (temp a) (cutoff a) (radd R (data a) (data a))).
Proof. intros R sdctor a b H. split; [exact (sd_add_spec sdctor a b H)|exact (sd_iadd_self_spec sdctor a H)]. Qed.
Print Assumptions c09_spectral_density_add_is_linear.

(* the constructor of a spectral density (one loop, additive makers) builds the in-order component list and the sums of
   the components' reorganisation energies and data *)
Theorem c09_spectral_density_constructor_sums : forall (R : StarRing) gen (cs : list (@comp R)),
  exists r, sd_ctor gen cs = Some r /\ comps r = cs /\ lamb r = sumf (@clam R) cs /\ data r = sumf (fun c => gen (ftype c) c) cs.
Proof. intros R gen. exact (sd_ctor_spec gen). Qed.
Print Assumptions c09_spectral_density_constructor_sums.

(* known finding sd:cp29:composed: the CP29 maker of the pinned tree (Model: sd_make_one_cp29_pinned, which the static
   tie proves to be what the code does) overwrites what the components before it contributed *)
Theorem c09_cp29_pinned_overwrites_refuted : exists (o : @cf ZR) (c : @comp ZR) (d : ZR),
  data (sd_make_one_cp29_pinned (R:=ZR) (fun _ => 50%Z : ZR) o c d) <> radd ZR (data o) d /\
  lamb (sd_make_one_cp29_pinned (R:=ZR) (fun _ => 50%Z : ZR) o c d) <> radd ZR (lamb o) (clam c).
Proof.
  exists (mkCf (R:=ZR) [] 30%Z (Some 300%Z) 0%Q 5%Z), (mkComp (R:=ZR) 4 300%Z 9%Z 0%Q 1), 2%Z.
  split; vm_compute; discriminate.
Qed.
Print Assumptions c09_cp29_pinned_overwrites_refuted.

(* the constructor as the code writes it (static tie, harness/translate_c09.py): the skeleton of __init__'s dispatch loop
   equals the model's constructor as soon as the family is read from the loop's own component, every maker receives the
   loop's own component and does the bookkeeping "data, reorganisation energy, then temperature / cut-off" *)
Theorem c09_constructor_skeleton : forall (R : StarRing) gen n lam0 t0 c0 d0 fam arg mk,
  lam0 = r0 R -> t0 = None -> c0 = 0%Q -> d0 = r0 R ->
  (forall own stale : @comp R, fam own stale = ftype own) ->
  (forall f (own stale : @comp R), (f < n)%nat -> arg f own stale = own) ->
  (forall f (o : @cf R) c d, (f < n)%nat ->
     mk f o c d = set_tc (mkCf (comps o) (radd R (lamb o) (clam c)) (temp o) (cutoff o) (radd R (data o) d)) (ctemp c) (ccut c)) ->
  forall cs, known n cs -> ctor_skel gen lam0 t0 c0 d0 fam arg mk cs = ctor gen OwnFtype cs.
Proof. intros R gen. exact (ctor_skel_is_model gen). Qed.
Print Assumptions c09_constructor_skeleton.

(* the two defects of the pinned tree *)
Theorem c09_stale_dispatch_refuted : exists (gen : nat -> @comp ZR -> ZR) cs,
  option_map (@data ZR) (ctor gen StaleFtype cs) <> option_map (@data ZR) (ctor gen OwnFtype cs).
Proof.
  exists gen_demo, [mkComp (R:=ZR) 1 300%Z 10%Z 5%Q 1; mkComp (R:=ZR) 2 300%Z 20%Z 7%Q 2].
  destruct stale_dispatch_witness as [-> ->]. discriminate.
Qed.
Print Assumptions c09_stale_dispatch_refuted.

Theorem c09_iadd_mutates_before_refusing_refuted : exists x y : @cf ZR,
  temp_eqb (temp x) (temp y) = false /\ fst (iadd MutateThenCheck x y) <> x.
Proof.
  exists (mkCf (R:=ZR) [] 10%Z (Some 300%Z) 1%Q 5%Z), (mkCf (R:=ZR) [] 1%Z (Some 77%Z) 1%Q 2%Z).
  split; [reflexivity|]. rewrite iadd_mutates_before_refusing_witness. cbn [fst]. discriminate.
Qed.
Print Assumptions c09_iadd_mutates_before_refusing_refuted.

(* non-vacuity: a consistent object exists and (a+b)+c evaluates *)
Example c09_example :
  let a := mkComp (R:=ZR) 1 300%Z 10%Z 5%Q 1 in let b := mkComp (R:=ZR) 2 300%Z 20%Z 7%Q 2 in
  let c := mkComp (R:=ZR) 1 300%Z 30%Z 6%Q 3 in
  let leaf x := built gen_demo [x] 300%Z in
  option_map (fun r => (data r, lamb r)) (eval gen_demo OwnFtype (Plus (Plus (Leaf (leaf a)) (Leaf (leaf b))) (Leaf (leaf c))))
  = Some (406%Z, 60%Z) /\
  option_map (fun r => (data r, lamb r)) (eval gen_demo OwnFtype (Plus (Leaf (leaf a)) (Plus (Leaf (leaf b)) (Leaf (leaf c)))))
  = Some (406%Z, 60%Z).
Proof. vm_compute. split; reflexivity. Qed.
