(* C07 — operator form, tensor form and exact limits of a relaxation tensor agree.
   Statements only; proofs in Proofs/C07.v, Proofs/C07diag.v and Proofs/C02.v; models in Model/C01.v, Model/C02.v.
   Over any commutative ring with conjugation, every dimension n and number of bath components Nb. *)
From Coq Require Import ZArith List Bool Arith.
From QV Require Import Base.Alg Base.Sums Base.Mat Base.Tens Base.Taylor Base.TaylorG Model.C01 Model.C02 Model.C07glue Proofs.C01 Proofs.C07 Proofs.C02 Proofs.C07gen Proofs.C07diag.
Import ListNotations.

(* the tensor built by _convert_operators_2_tensor, applied by tensordot, acts on EVERY operator exactly as the
   operator form  K rho L^+ + L rho K^T - K^T L rho - rho L^+ K  does - for whatever K_m, Lambda_m, Ld_m are stored
   (hence before and after conversion, and in whatever basis the operators are currently held) *)
Theorem c07_operator_form_eq_tensor_form : forall (R : StarRing) n Nb (Km Lm Ld : nat -> @mat R) (rho : @mat R),
  meq n (tapply n (convert_ops n Nb Km Lm Ld) rho) (apply_ops n Nb Km Lm Ld rho).
Proof. intros R n. exact (op_eq_tensor n). Qed.
Print Assumptions c07_operator_form_eq_tensor_form.

(* the time-dependent assembly at any time index (K_m symmetric) *)
Theorem c07_td_operator_form_eq_tensor_form : forall (R : StarRing) n Nb (Km Lm Ld : nat -> @mat R) (rho : @mat R),
  (forall m, (m < Nb)%nat -> sym_mat n (Km m)) ->
  meq n (tapply n (td_convert_ops n Nb Km Lm Ld) rho) (apply_ops n Nb Km Lm Ld rho).
Proof. intros R n. exact (td_op_eq_tensor n). Qed.
Print Assumptions c07_td_operator_form_eq_tensor_form.

(* hence identical propagated dynamics: every stored state, every expansion order (any prefactor list), every
   refinement and number of steps, with or without a dephasing map applied after each refined step *)
Theorem c07_same_propagated_dynamics : forall (R : StarRing) (im : R) n (H : @mat R) Nb (Km Lm Ld : nat -> @mat R)
  prefs nsteps nref (D : nat -> @mat R -> @mat R) rho0,
  (forall j x x', meq n x x' -> meq n (D j x) (D j x')) ->
  Forall2 (meq n)
    (dm_traj n (fun _ => G_tensor im n H (convert_ops n Nb Km Lm Ld)) D prefs nsteps nref rho0)
    (dm_traj n (fun _ => G_ops im n H Nb Km Lm Ld) D prefs nsteps nref rho0).
Proof. intros R im n. exact (same_dynamics im n). Qed.
Print Assumptions c07_same_propagated_dynamics.

(* in every (real orthogonal) basis: transforming the stored operators and the operand transforms the result;
   together with c04_tensor_application_basis_independent both forms stay equal in every basis *)
Theorem c07_operator_form_basis_independent : forall (R : StarRing) n (S1 S : @mat R) Nb (Km Lm Ld : nat -> @mat R) (rho : @mat R),
  meq n (mmul n S S1) (@mid R) -> transpose_of n S1 S ->
  meq n (apply_ops n Nb (fun m => sim n S1 S (Km m)) (fun m => sim n S1 S (Lm m)) (fun m => sim n S1 S (Ld m)) (sim n S1 S rho))
        (sim n S1 S (apply_ops n Nb Km Lm Ld rho)).
Proof. intros R n. exact (apply_ops_covariant n). Qed.
Print Assumptions c07_operator_form_basis_independent.

(* the time-dependent Redfield tensor vanishes where Lambda_m vanishes (time zero: an antiderivative at its
   lower limit) ... *)
Theorem c07_td_tensor_vanishes_at_time_zero : forall (R : StarRing) n Nb (Km Lm : nat -> @mat R),
  zero_ops n Nb Lm -> teq n (td_redfield_tensor n Nb Km Lm) (fun _ _ _ _ => r0 R).
Proof. intros R n. exact (td_zero_at_zero n). Qed.
Print Assumptions c07_td_tensor_vanishes_at_time_zero.

(* ... and equals the time-independent tensor wherever its Lambda_m equal the time-independent ones (last index:
   the running integral has reached the value the time-independent code takes) *)
Theorem c07_td_tensor_last_eq_time_independent : forall (R : StarRing) n Nb (Km Lm_last Lm_ti : nat -> @mat R),
  (forall m, (m < Nb)%nat -> sym_mat n (Km m)) ->
  (forall m i j, (m < Nb)%nat -> (i < n)%nat -> (j < n)%nat -> Lm_last m i j = Lm_ti m i j) ->
  teq n (td_redfield_tensor n Nb Km Lm_last) (redfield_tensor n Nb Km Lm_ti).
Proof. intros R n. exact (td_last_eq_ti n). Qed.
Print Assumptions c07_td_tensor_last_eq_time_independent.

(* the Lindblad operator form is the GKSL dissipator gamma (K rho K^T - 1/2 {K^T K, rho}), hg = gamma/2 *)
Theorem c07_lindblad_form_is_gksl : forall (R : StarRing) n Nb (hg : nat -> R) (Km : nat -> @mat R) rho,
  meq n (apply_ops n Nb Km (lindblad_L hg Km) (fun m => mT (lindblad_L hg Km m)) rho) (gksl n Nb hg Km rho).
Proof. intros R n. exact (lindblad_is_gksl n). Qed.
Print Assumptions c07_lindblad_form_is_gksl.

(* the index walk over the stored values of a time-dependent tensor (time-local propagation with the tensor sampled on
   the bath time axis, with a cut-off): the repaired rule never leaves the range of stored tensors, agrees with the
   pinned rule below the cut-off, and the pinned rule ran off the end (IndexError in tensor form while the operator
   form went on: the two forms did not generate the same dynamics); repaired by a fix: commit *)
Theorem c07_td_index_walk : 
  (forall k indxR stride cutoff, (2 <= cutoff)%nat -> (indxR <= cutoff - 1)%nat ->
     Forall (fun i => (i < cutoff)%nat) (td_walk WalkRepaired k indxR stride cutoff)) /\
  (forall indxR stride cutoff, (1 <= stride)%nat -> (indxR + stride <= cutoff - 1)%nat ->
     walk_next WalkPinned indxR stride cutoff = walk_next WalkRepaired indxR stride cutoff) /\
  (td_walk WalkPinned 4 1 1 3 = [1; 2; 3; 3]%nat /\ td_walk WalkRepaired 4 1 1 3 = [1; 2; 2; 2]%nat).
Proof. split; [exact td_walk_repaired_in_range|]. split; [exact td_walk_same_below|exact td_walk_pinned_witness]. Qed.
Print Assumptions c07_td_index_walk.

(* ---------------- glue (Model/C07glue.v; proofs in Proofs/C07gen.v) ---------------- *)

(* apply(): whichever representation is live acts the same, and convert_2_tensor switches the representation (flag cleared, the
   tensor built from the stored operators) without changing the action; it does nothing to a tensor already in four-index form *)
Theorem c07_apply_before_and_after_conversion : forall (R : StarRing) n Nb (Km Lm Ld : nat -> @mat R) (T : @tens R) (rho : @mat R),
  meq n (rt_apply n false Nb Km Lm Ld (convert_ops n Nb Km Lm Ld) rho) (rt_apply n true Nb Km Lm Ld T rho) /\
  fst (convert_2_tensor n true Nb Km Lm Ld T) = false /\
  meq n (rt_apply n (fst (convert_2_tensor n true Nb Km Lm Ld T)) Nb Km Lm Ld (snd (convert_2_tensor n true Nb Km Lm Ld T)) rho)
        (rt_apply n true Nb Km Lm Ld T rho) /\
  convert_2_tensor n false Nb Km Lm Ld T = (false, T).
Proof. intros R n Nb Km Lm Ld T rho. split; [exact (rt_apply_forms n Nb Km Lm Ld T rho)|exact (convert_2_tensor_spec n Nb Km Lm Ld T rho)]. Qed.
Print Assumptions c07_apply_before_and_after_conversion.

(* both codes build Lambda_m from the same running integral c(t) = sr(t) + i si(t) (an oracle): the time-independent one from its value
   at the last index of the (cut) axis, the time-dependent one from its value at every index.  Hence the time-dependent tensor at the
   last index IS the time-independent tensor, and it vanishes at the first index where the running integral is zero *)
Theorem c07_td_limits_from_the_running_integral : forall (R : StarRing) n (im : R) (sr si : nat -> nat -> nat -> nat -> R) Nb (Km : nat -> @mat R) length,
  (forall m, (m < Nb)%nat -> sym_mat n (Km m)) ->
  teq n (td_redfield_tensor n Nb Km (lam_td im sr si Km (length - 1))) (redfield_tensor n Nb Km (lam_ti im sr si Km length)) /\
  ((forall ms a b, sr ms a b 0%nat = r0 R) -> (forall ms a b, si ms a b 0%nat = r0 R) ->
     teq n (td_redfield_tensor n Nb Km (lam_td im sr si Km 0)) (fun _ _ _ _ => r0 R)).
Proof.
  intros R n im sr si Nb Km length HK. split; [exact (td_last_tensor_is_ti_tensor n im sr si Nb Km length HK)|exact (td_first_tensor_is_zero n im sr si Nb Km)].
Qed.
Print Assumptions c07_td_limits_from_the_running_integral.

(* time-local propagation in operator form: the repaired nest uses, in every refined step, the operator family the tensor-form nest
   uses (Model.C02.td_walk); the pinned nest (one family per outer step, advanced by one) did so only on the bath's own axis without
   refinement - with a propagation step of two bath steps it used the families 1,2,3 where the tensor form uses 1,3,5, with two
   refined steps per step 1,1,2,2 instead of 1,2,3,4: the two forms did not generate the same dynamics; repaired by a fix: commit *)
Theorem c07_td_operator_walk :
  (forall nsteps nref stride cutoff, ops_td_walk OpsWalkRepaired nsteps nref stride cutoff = td_walk WalkRepaired (nsteps * nref) 1 stride cutoff) /\
  (forall nsteps cutoff, (2 <= cutoff)%nat -> ops_td_walk OpsWalkPinned nsteps 1 1 cutoff = td_walk WalkRepaired (nsteps * 1) 1 1 cutoff) /\
  (ops_td_walk OpsWalkPinned 3 1 2 10 = [1; 2; 3]%nat /\ td_walk WalkRepaired 3 1 2 10 = [1; 3; 5]%nat) /\
  (ops_td_walk OpsWalkPinned 2 2 1 10 = [1; 1; 2; 2]%nat /\ td_walk WalkRepaired 4 1 1 10 = [1; 2; 3; 4]%nat).
Proof. exact ops_td_walk_spec. Qed.
Print Assumptions c07_td_operator_walk.

(* ---- the exact pure-dephasing limit, algebraic half.  Uncoupled sites: diagonal Hamiltonian, diagonal K_m and diagonal Lambda_m /
   Lambda_m^+ (they are functions of the diagonal Hamiltonian and K_m; the check verifies these hypotheses on the operators of the
   real tensors in the site basis).  Operator form with operators that may change with the refined step (so the time-dependent
   tensor too, by c07_td_operator_form_eq_tensor_form), any expansion order, refinement and number of steps, any map D applied after
   each refined step that leaves the diagonal alone resp. multiplies the element by a factor (pure dephasing does):
   the populations never move, and every matrix element of every stored state is the propagation of a SCALAR, multiplied in refined
   step j by the truncated exponential of dt * coef_j with
     coef = -i (h_a - h_b) + sum_m (k_ma conj(l)_mb + l_ma k_mb - k_ma l_ma - conj(l)_mb k_mb).
   What separates the code's result from exp(-i w t - g(t)) is therefore only the truncation of a scalar exponential and the quadrature
   behind Lambda_m(t) - that part is validated numerically, not proved. *)
Theorem c07_uncoupled_populations_constant : forall (R : StarRing) (im : R) n (H : @mat R) Nb (Km : nat -> @mat R) (Lm Ld : nat -> nat -> @mat R),
  diagonal n H -> (forall m, diagonal n (Km m)) -> (forall j m, diagonal n (Lm j m)) -> (forall j m, diagonal n (Ld j m)) ->
  forall (D : nat -> @mat R -> @mat R) prefs nsteps nref rho0 a, (a < n)%nat -> (forall j x, D j x a a = x a a) ->
  Forall (fun rho => rho a a = rho0 a a) (dm_traj n (fun j => G_ops im n H Nb Km (Lm j) (Ld j)) D prefs nsteps nref rho0).
Proof.
  intros R im n H Nb Km Lm Ld h1 h2 h3 h4 D prefs nsteps nref rho0 a Ha HD.
  exact (populations_constant im n H Nb h1 Km Lm Ld h2 h3 h4 D prefs nsteps nref rho0 a Ha HD).
Qed.
Print Assumptions c07_uncoupled_populations_constant.

Theorem c07_uncoupled_sites_propagate_elementwise : forall (R : StarRing) (im : R) n (H : @mat R) Nb (Km : nat -> @mat R) (Lm Ld : nat -> nat -> @mat R),
  diagonal n H -> (forall m, diagonal n (Km m)) -> (forall j m, diagonal n (Lm j m)) -> (forall j m, diagonal n (Ld j m)) ->
  forall (D : nat -> @mat R -> @mat R) (d : nat -> R) prefs nsteps nref rho0 a b, (a < n)%nat -> (b < n)%nat ->
  (forall j x, D j x a b = rmul R (x a b) (d j)) ->
  Forall2 (fun rho x => rho a b = x)
          (dm_traj n (fun j => G_ops im n H Nb Km (Lm j) (Ld j)) D prefs nsteps nref rho0)
          (scalar_traj im H Nb Km Lm Ld a b d prefs nsteps nref (rho0 a b)).
Proof.
  intros R im n H Nb Km Lm Ld h1 h2 h3 h4 D d prefs nsteps nref rho0 a b Ha Hb HD.
  exact (propagation_elementwise im n H Nb h1 Km Lm Ld h2 h3 h4 D d prefs nsteps nref rho0 a b Ha Hb HD).
Qed.
Print Assumptions c07_uncoupled_sites_propagate_elementwise.

(* the scalar propagation in closed form: one refined step multiplies the element by
     tfactor prefs c = 1 + p1 c + p1 p2 c^2 + ... + p1..pL c^L      (p_l = dt / l : the order-L truncated exponential of dt c)
   and then by the element's dephasing factor - for every list of prefactors, i.e. every expansion order *)
Theorem c07_uncoupled_step_is_truncated_exponential : forall (R : StarRing) (cf d : nat -> R) prefs j x,
  gstep (radd R) (rmul R) (fun j x => rmul R (cf j) x) (fun j x => rmul R x (d j)) prefs j x
  = rmul R (rmul R x (tfactor prefs (cf j))) (d j).
Proof. intros R cf d prefs j x. exact (scalar_gstep cf d prefs j x). Qed.
Print Assumptions c07_uncoupled_step_is_truncated_exponential.

Example c07_example_truncated_exponential_order2 : forall (R : StarRing) (p1 p2 c : R),
  tfactor [p1; p2] c = radd R (radd R (r1 R) (rmul R p1 c)) (rmul R (rmul R p1 p2) (rmul R c c)).
Proof. intros R p1 p2 c. exact (tfactor_order2 p1 p2 c). Qed.
