(* C07 — operator form, tensor form and exact limits of a relaxation tensor agree.
   Statements only; proofs in Proofs/C07.v and Proofs/C02.v; models in Model/C01.v, Model/C02.v.
   Over any commutative ring with conjugation, every dimension n and number of bath components Nb. *)
From Coq Require Import ZArith List Bool Arith.
From QV Require Import Base.Alg Base.Sums Base.Mat Base.Tens Base.Taylor Base.TaylorG Model.C01 Model.C02 Proofs.C01 Proofs.C07 Proofs.C02.
Import ListNotations.

(* the tensor built by _convert_operators_2_tensor, applied by tensordot, acts on EVERY operator exactly as the
   operator form  K rho L^+ + L rho K^T - K^T L rho - rho L^+ K  does - for whatever K_m, Lambda_m, Ld_m are stored
   (hence before and after conversion, and in whatever basis the operators are currently held) *)
Theorem c07_operator_form_eq_tensor_form : forall (R : StarRing) n Nb (Km Lm Ld : nat -> @mat R) (rho : @mat R),
  meq n (tapply n (convert_ops n Nb Km Lm Ld) rho) (apply_ops n Nb Km Lm Ld rho).
Proof. intros R n. exact (op_eq_tensor n). Qed.
Print Assumptions c07_operator_form_eq_tensor_form.

(* the time-dependent assembly at any time index (K_m symmetric) *)
Theorem c07_td_operator_form_eq_tensor_form : forall (R : StarRing) n Nb (Km Lm Ld : nat -> @mat R) (rho : @mat R),
  (forall m, (m < Nb)%nat -> sym_mat n (Km m)) ->
  meq n (tapply n (td_convert_ops n Nb Km Lm Ld) rho) (apply_ops n Nb Km Lm Ld rho).
Proof. intros R n. exact (td_op_eq_tensor n). Qed.
Print Assumptions c07_td_operator_form_eq_tensor_form.

(* hence identical propagated dynamics: every stored state, every expansion order (any prefactor list), every
   refinement and number of steps, with or without a dephasing map applied after each refined step *)
Theorem c07_same_propagated_dynamics : forall (R : StarRing) (im : R) n (H : @mat R) Nb (Km Lm Ld : nat -> @mat R)
  prefs nsteps nref (D : nat -> @mat R -> @mat R) rho0,
  (forall j x x', meq n x x' -> meq n (D j x) (D j x')) ->
  Forall2 (meq n)
    (dm_traj n (fun _ => G_tensor im n H (convert_ops n Nb Km Lm Ld)) D prefs nsteps nref rho0)
    (dm_traj n (fun _ => G_ops im n H Nb Km Lm Ld) D prefs nsteps nref rho0).
Proof. intros R im n. exact (same_dynamics im n). Qed.
Print Assumptions c07_same_propagated_dynamics.

(* in every (real orthogonal) basis: transforming the stored operators and the operand transforms the result;
   together with c04_tensor_application_basis_independent both forms stay equal in every basis *)
Theorem c07_operator_form_basis_independent : forall (R : StarRing) n (S1 S : @mat R) Nb (Km Lm Ld : nat -> @mat R) (rho : @mat R),
  meq n (mmul n S S1) (@mid R) -> transpose_of n S1 S ->
  meq n (apply_ops n Nb (fun m => sim n S1 S (Km m)) (fun m => sim n S1 S (Lm m)) (fun m => sim n S1 S (Ld m)) (sim n S1 S rho))
        (sim n S1 S (apply_ops n Nb Km Lm Ld rho)).
Proof. intros R n. exact (apply_ops_covariant n). Qed.
Print Assumptions c07_operator_form_basis_independent.

(* the time-dependent Redfield tensor vanishes where Lambda_m vanishes (time zero: an antiderivative at its
   lower limit) ... *)
Theorem c07_td_tensor_vanishes_at_time_zero : forall (R : StarRing) n Nb (Km Lm : nat -> @mat R),
  zero_ops n Nb Lm -> teq n (td_redfield_tensor n Nb Km Lm) (fun _ _ _ _ => r0 R).
Proof. intros R n. exact (td_zero_at_zero n). Qed.
Print Assumptions c07_td_tensor_vanishes_at_time_zero.

(* ... and equals the time-independent tensor wherever its Lambda_m equal the time-independent ones (last index:
   the running integral has reached the value the time-independent code takes) *)
Theorem c07_td_tensor_last_eq_time_independent : forall (R : StarRing) n Nb (Km Lm_last Lm_ti : nat -> @mat R),
  (forall m, (m < Nb)%nat -> sym_mat n (Km m)) ->
  (forall m i j, (m < Nb)%nat -> (i < n)%nat -> (j < n)%nat -> Lm_last m i j = Lm_ti m i j) ->
  teq n (td_redfield_tensor n Nb Km Lm_last) (redfield_tensor n Nb Km Lm_ti).
Proof. intros R n. exact (td_last_eq_ti n). Qed.
Print Assumptions c07_td_tensor_last_eq_time_independent.

(* the Lindblad operator form is the GKSL dissipator gamma (K rho K^T - 1/2 {K^T K, rho}), hg = gamma/2 *)
Theorem c07_lindblad_form_is_gksl : forall (R : StarRing) n Nb (hg : nat -> R) (Km : nat -> @mat R) rho,
  meq n (apply_ops n Nb Km (lindblad_L hg Km) (fun m => mT (lindblad_L hg Km m)) rho) (gksl n Nb hg Km rho).
Proof. intros R n. exact (lindblad_is_gksl n). Qed.
Print Assumptions c07_lindblad_form_is_gksl.

(* the index walk over the stored values of a time-dependent tensor (time-local propagation with the tensor sampled on
   the bath time axis, with a cut-off): the repaired rule never leaves the range of stored tensors, agrees with the
   pinned rule below the cut-off, and the pinned rule ran off the end (IndexError in tensor form while the operator
   form went on: the two forms did not generate the same dynamics); repaired by a fix: commit *)
Theorem c07_td_index_walk : 
  (forall k indxR stride cutoff, (2 <= cutoff)%nat -> (indxR <= cutoff - 1)%nat ->
     Forall (fun i => (i < cutoff)%nat) (td_walk WalkRepaired k indxR stride cutoff)) /\
  (forall indxR stride cutoff, (1 <= stride)%nat -> (indxR + stride <= cutoff - 1)%nat ->
     walk_next WalkPinned indxR stride cutoff = walk_next WalkRepaired indxR stride cutoff) /\
  (td_walk WalkPinned 4 1 1 3 = [1; 2; 3; 3]%nat /\ td_walk WalkRepaired 4 1 1 3 = [1; 2; 2; 2]%nat).
Proof. split; [exact td_walk_repaired_in_range|]. split; [exact td_walk_same_below|exact td_walk_pinned_witness]. Qed.
Print Assumptions c07_td_index_walk.
