(* C12 — third-order response: orientational average, invariances, additivity.
   Statements only; proofs in Proofs/C12.v, C12paths.v, C12ico.v, C12ref.v, C12obj.v, C12gen.v; model in Model/C12.v, C12x.v.
   Scalars are the elements of an arbitrary commutative ring (the reals in particular); the line-shape
   function [L], the sign test [neg] and the calculator's default width are arbitrary; [th] stands for 1/30. *)
From Coq Require Import ZArith List Bool.
From Coq Require String.
Import String.StringSyntax.
Delimit Scope string_scope with string.
From QV Require Import Base.Alg Model.C19 Model.C12 Model.C12x Proofs.C12 Proofs.C12paths Proofs.C12ico Proofs.C12ref Proofs.C12obj Proofs.C12gen.
Import ListNotations.

(* the prefactor formula F4e.M4.F4n does not change when ALL dipoles, or ALL polarisations, are transformed by
   the same orthogonal matrix (rotations and reflections), for every polarisation and dipole four-tuple *)
Theorem c12_orient_invariant_under_common_rotation : forall (R : StarRing) (Q : @mat3 R) (th : R) (e0 e1 e2 e3 d0 d1 d2 d3 : @vec3 R),
  orthogonal Q ->
  orient th e0 e1 e2 e3 (mv3 Q d0) (mv3 Q d1) (mv3 Q d2) (mv3 Q d3) = orient th e0 e1 e2 e3 d0 d1 d2 d3 /\
  orient th (mv3 Q e0) (mv3 Q e1) (mv3 Q e2) (mv3 Q e3) d0 d1 d2 d3 = orient th e0 e1 e2 e3 d0 d1 d2 d3.
Proof. intros R Q th e0 e1 e2 e3 d0 d1 d2 d3 H. split; [now apply orient_rot_d|now apply orient_rot_e]. Qed.
Print Assumptions c12_orient_invariant_under_common_rotation.

(* it is of fourth degree in a common dipole factor, symmetric between fields and dipoles, and invariant under
   exchanging two interactions together with their fields *)
Theorem c12_orient_quartic_and_symmetric : forall (R : StarRing) (s th : R) (e0 e1 e2 e3 d0 d1 d2 d3 : @vec3 R),
  orient th e0 e1 e2 e3 (vscale s d0) (vscale s d1) (vscale s d2) (vscale s d3)
    = rmul R (rmul R (rmul R (rmul R s s) s) s) (orient th e0 e1 e2 e3 d0 d1 d2 d3) /\
  orient th d0 d1 d2 d3 e0 e1 e2 e3 = orient th e0 e1 e2 e3 d0 d1 d2 d3 /\
  orient th e1 e0 e2 e3 d1 d0 d2 d3 = orient th e0 e1 e2 e3 d0 d1 d2 d3 /\
  orient th e0 e2 e1 e3 d0 d2 d1 d3 = orient th e0 e1 e2 e3 d0 d1 d2 d3 /\
  orient th e0 e1 e3 e2 d0 d1 d3 d2 = orient th e0 e1 e2 e3 d0 d1 d2 d3.
Proof.
  intros. split; [apply orient_scale|]. split; [apply orient_transpose|]. split; [apply orient_swap01|].
  split; [apply orient_swap12|apply orient_swap23].
Qed.
Print Assumptions c12_orient_quartic_and_symmetric.

(* the formula is the isotropic average: (i) for every single orientation Q the product of the four projections,
   summed over an orthonormal frame in two polarisation slots, gives the product of the two dipole dot products;
   (ii) 30 x the formula satisfies the same three contraction identities; (iii) a form F4(e).M.F4(d) with these
   identities has 30 M = [[4,-1,-1],[-1,4,-1],[-1,-1,4]].  (That the average over SO(3) of the product of four
   projections is of the form F4(e).M.F4(d) - isotropic rank-four tensors are spanned by the three products of
   Kronecker deltas - is cited mathematics, and is monitored numerically on every run.) *)
Theorem c12_orient_is_the_isotropic_average : forall (R : StarRing),
  (forall (Q : @mat3 R) d0 d1 d2 d3, orthogonal Q ->
      frame_sum (fun a b => proj4 Q a a b b d0 d1 d2 d3) = rmul R (dot d0 d1) (dot d2 d3)) /\
  (forall d0 d1 d2 d3 : @vec3 R,
      frame_sum (fun a b => orient30 a a b b d0 d1 d2 d3) = rmul R thirty (rmul R (dot d0 d1) (dot d2 d3)) /\
      frame_sum (fun a b => orient30 a b a b d0 d1 d2 d3) = rmul R thirty (rmul R (dot d0 d2) (dot d1 d3)) /\
      frame_sum (fun a b => orient30 a b b a d0 d1 d2 d3) = rmul R thirty (rmul R (dot d0 d3) (dot d1 d2))) /\
  (forall m : @vec3 R * @vec3 R * @vec3 R,
      (forall d0 d1 d2 d3, frame_sum (fun a b => form3 m a a b b d0 d1 d2 d3) = rmul R (dot d0 d1) (dot d2 d3)) ->
      (forall d0 d1 d2 d3, frame_sum (fun a b => form3 m a b a b d0 d1 d2 d3) = rmul R (dot d0 d2) (dot d1 d3)) ->
      (forall d0 d1 d2 d3, frame_sum (fun a b => form3 m a b b a d0 d1 d2 d3) = rmul R (dot d0 d3) (dot d1 d2)) ->
      vscale thirty (fst (fst m)) = (four, ropp R (r1 R), ropp R (r1 R)) /\
      vscale thirty (snd (fst m)) = (ropp R (r1 R), four, ropp R (r1 R)) /\
      vscale thirty (snd m) = (ropp R (r1 R), ropp R (r1 R), four)) /\
  (forall th e0 e1 e2 e3 d0 d1 d2 d3, orient th e0 e1 e2 e3 d0 d1 d2 d3 = rmul R th (orient30 e0 e1 e2 e3 d0 d1 d2 d3)).
Proof.
  intros R. split; [intros; now apply proj4_contraction|]. split.
  - intros. split; [apply contraction_01_23|]. split; [apply contraction_02_13|apply contraction_03_12].
  - split; [intros m H1 H2 H3; exact (form3_unique m H1 H2 H3)|intros; apply orient_th].
Qed.
Print Assumptions c12_orient_is_the_isotropic_average.

(* every generated pathway (name, transitions, sign, F4n, frequencies, widths, evolution factor) is unchanged by a common
   orthogonal transformation of all transition dipoles, and so are the selection flags, which depend on |d|^2 *)
Theorem c12_pathways_invariant_under_dipole_rotation : forall (R : StarRing) (Q : @mat3 R) (S : @sys R), orthogonal Q ->
  gen6 (map_dip (mv3 Q) S) = gen6 S /\ gen4 (map_dip (mv3 Q) S) = gen4 S /\
  (forall d, dot (mv3 Q d) (mv3 Q d) = dot d d).
Proof. intros R Q S H. split; [now apply gen6_rot|]. split; [now apply gen4_rot|]. intros d. now apply D2_rot. Qed.
Print Assumptions c12_pathways_invariant_under_dipole_rotation.

(* the response (any line shape, any grid point) of a system whose dipoles are all multiplied by s is s^4 times
   the response, the selection of pathways being the same *)
Theorem c12_response_quartic_scaling : forall (R : StarRing) L neg dflt (s : R) (S : @sys R) gauss FM,
  response L neg dflt gauss FM (gen6 (map_dip (vscale s) S)) = rmul R (rmul R (rmul R (rmul R s s) s) s) (response L neg dflt gauss FM (gen6 S)) /\
  response L neg dflt gauss FM (gen4 (map_dip (vscale s) S)) = rmul R (rmul R (rmul R (rmul R s s) s) s) (response L neg dflt gauss FM (gen4 S)).
Proof. intros. split; [apply response_scale6|apply response_scale4]. Qed.
Print Assumptions c12_response_quartic_scaling.

(* calculate_one run on the storage model of C19: under the flags rephasing / non-rephasing / total the
   TwoDResponse shows the sums of the rephasing / non-rephasing / all pathway contributions, total = R + NR *)
Theorem c12_total_is_rephasing_plus_nonrephasing : forall (R : StarRing) L neg dflt gauss FM (ps : list (@pway R)),
  let s := calc_store L neg dflt gauss FM ps in
  exists r n t, read (set_flag s (DS REPH) None) = RVal (Some r) /\ read (set_flag s (DS NONR) None) = RVal (Some n) /\
                read (set_flag s DTot None) = RVal (Some t) /\
                r = response L neg dflt gauss FM (part true ps) /\ n = response L neg dflt gauss FM (part false ps) /\
                t = radd R r n /\ t = response L neg dflt gauss FM ps.
Proof. intros R L neg dflt gauss FM ps. exact (calc_reads L neg dflt gauss FM ps). Qed.
Print Assumptions c12_total_is_rephasing_plus_nonrephasing.

(* dimers and trimers of uncoupled two-level molecules with their two-exciton states: for all transition energies,
   dipoles, widths, coherence evolution factors during t2, polarisations (FM), selection flags of the dipoles and every
   line-shape function, the response with excited-state absorption equals the sum of the molecular responses
   (Gaussian widths; Lorentzian lines when the molecules have equal dephasings) *)
Theorem c12_uncoupled_response_is_sum_of_molecules : forall (R : StarRing) L neg dflt om dip wd ga coh bigd (FM : @vec3 R),
  response L neg dflt true FM (gen6 (usys 2 om dip wd ga coh bigd)) =
    radd R (response L neg dflt true FM (gen4 (monomer om dip wd ga bigd 0))) (response L neg dflt true FM (gen4 (monomer om dip wd ga bigd 1))) /\
  response L neg dflt true FM (gen6 (usys 3 om dip wd ga coh bigd)) =
    radd R (radd R (response L neg dflt true FM (gen4 (monomer om dip wd ga bigd 0))) (response L neg dflt true FM (gen4 (monomer om dip wd ga bigd 1))))
           (response L neg dflt true FM (gen4 (monomer om dip wd ga bigd 2))) /\
  (ga 1%nat = ga 0%nat ->
   response L neg dflt false FM (gen6 (usys 2 om dip wd ga coh bigd)) =
    radd R (response L neg dflt false FM (gen4 (monomer om dip wd ga bigd 0))) (response L neg dflt false FM (gen4 (monomer om dip wd ga bigd 1)))) /\
  (ga 1%nat = ga 0%nat -> ga 2%nat = ga 0%nat ->
   response L neg dflt false FM (gen6 (usys 3 om dip wd ga coh bigd)) =
    radd R (radd R (response L neg dflt false FM (gen4 (monomer om dip wd ga bigd 0))) (response L neg dflt false FM (gen4 (monomer om dip wd ga bigd 1))))
           (response L neg dflt false FM (gen4 (monomer om dip wd ga bigd 2)))).
Proof.
  intros R L neg dflt om dip wd ga coh bigd FM.
  split; [exact (cancel2_gauss L neg dflt om dip wd ga coh bigd FM)|].
  split; [exact (cancel3_gauss L neg dflt om dip wd ga coh bigd FM)|].
  split; [exact (cancel2_lorentz L neg dflt om dip wd ga coh bigd FM)|exact (cancel3_lorentz L neg dflt om dip wd ga coh bigd FM)].
Qed.
Print Assumptions c12_uncoupled_response_is_sum_of_molecules.

(* the pinned dephasing tables (a 1<->2 exciton transition gets the dephasing of its one-exciton state) break the
   cancellation for Lorentzian lines with unequal dephasings: recorded finding *)
Theorem c12_lorentzian_unequal_dephasing_refuted :
  let L : bool -> bool -> ZR -> ZR -> ZR -> ZR -> ZR := fun _ _ c1 _ _ g3 => (c1 * g3)%Z in
  let neg (x : ZR) := Z.ltb x 0 in
  let om (a : nat) : ZR := (Z.of_nat a + 9)%Z in
  let dip (a : nat) : @vec3 ZR := (1, 0, 0)%Z in
  let wd (a : nat) : ZR := 1%Z in
  let ga (a : nat) : ZR := (Z.of_nat a + 1)%Z in
  let FM : @vec3 ZR := (4, -1, -1)%Z in
  response L neg 1%Z false FM (gen6 (usys 2 om dip wd ga (fun _ _ => 1%Z) (fun _ => true))) <>
  (response L neg 1%Z false FM (gen4 (monomer om dip wd ga (fun _ => true) 0)) +
   response L neg 1%Z false FM (gen4 (monomer om dip wd ga (fun _ => true) 1)))%Z.
Proof. exact lorentz_unequal_refuted. Qed.
Print Assumptions c12_lorentzian_unequal_dephasing_refuted.

(* the pathway OBJECT (Model/C12x.v: liouville_pathway.__init__ / add_transition / add_transfer / set_evolution_factor /
   build as a state machine, arrays as functions with point updates, every raise - consistency check or index outside an
   array - a None) run on a well-formed program of calls (third order, four transitions with sides +1/-1 and intervals
   below 4 of which one names an interval, as many transfers as relax_order, every transfer declared to start from the
   state the diagram is in) returns exactly the closed-form pathway [mkpath] the other theorems are about when the
   "has to start from the current state" checks pass, and raises otherwise *)
Theorem c12_object_run_is_closed_form : forall (R : StarRing) (Sy : @sys R) (c : xcall) (ops : list (@xop R)),
  c_order c = 3%nat -> xwf c ops = true ->
  xpath Sy c ops = if ev_ok (erase ops) (c_sinit c, 0%nat) then Some (xleaf (mkpath Sy) c ops) else None.
Proof. intros R Sy c ops Ho Hw. exact (xpath_is_mkpath Sy c Ho ops Hw). Qed.
Print Assumptions c12_object_run_is_closed_form.

(* when the only electronic ground state is state 0 (aggregates of two-level molecules: the quantifier of the property),
   no pathway construction of the six generators fails, so their exception handlers (two of which swallow the exception
   and leave the innermost loop) are never entered *)
Theorem c12_no_pathway_construction_fails : forall (R : StarRing) (Sy : @sys R), ground0 Sy ->
  Forall (fun p => pw_ok p = true) (gen6 Sy) /\ Forall (fun p => pw_ok p = true) (gen4 Sy).
Proof. intros R Sy H. split; [now apply gen6_all_ok|now apply gen4_all_ok]. Qed.
Print Assumptions c12_no_pathway_construction_fails.

(* MockTwoDResponseCalculator.calculate_pathway has four separate defaults (widthx, widthy, dephx, dephy), used where a
   pathway carries a negative width / dephasing (dephy: where it carries a negative WIDTH of the third interval - the
   pinned code tests widths[3] there); the other theorems are stated for one default.  With equal defaults the two
   agree, and for a pathway whose widths and first dephasing are not negative - every pathway of the generators, whose
   look-ups are Gaussian widths and dephasing rates - no default is read at all *)
Theorem c12_calculator_defaults : forall (R : StarRing) L neg (a b c d dflt : R) gauss (FM : @vec3 R) (p : @pway R),
  contrib4 L neg dflt dflt dflt dflt gauss FM p = contrib L neg dflt gauss FM p /\
  (neg (pw_w1 p) = false -> neg (pw_w3 p) = false -> neg (pw_g1 p) = false ->
   contrib4 L neg a b c d gauss FM p = contrib L neg dflt gauss FM p).
Proof. intros. split; [apply contrib4_same|apply contrib4_no_default]. Qed.
Print Assumptions c12_calculator_defaults.

(* non-vacuity: a well-formed program that runs, the same program started from ground state 1 (the constructor leaves
   current[1] = 0, so the first interaction from the right raises), a transfer beyond relax_order is not well formed,
   and the uncoupled aggregates have state 0 as their only ground state *)
Example c12_example_object_runs :
  let Sy := usys (R:=ZR) 2 (fun a => Z.of_nat a + 9)%Z (fun a => (1, Z.of_nat a, 0)%Z) (fun _ => 1%Z) (fun _ => 1%Z) (fun _ _ => 1%Z) (fun _ => true) in
  let prog (g : nat) : list (@xop ZR) := [@XT ZR 1 g (-1) 1 5 7; @XT ZR 2 g 1 0 (-1) (-1); @XX ZR 2 1 2 1; @XE ZR 3; @XT ZR g 1 (-1) 0 (-1) (-1); @XT ZR g 2 1 3 6 8]%Z in
  let c (g : nat) := mkCall "R"%string g 3 "R2g"%string 1 1 in
  xwf (c 0%nat) (prog 0%nat) = true /\
  (exists p, xpath Sy (c 0%nat) (prog 0%nat) = Some p /\ pw_freq p = [-9; 1; 1; 10; 0]%Z /\ pw_sign p = 1%Z /\ pw_evf p = 3%Z /\ pw_w3 p = 6%Z) /\
  xwf (c 1%nat) (prog 1%nat) = true /\ xpath Sy (c 1%nat) (prog 1%nat) = None /\
  xwf (mkCall "R"%string 0 3 "R2g"%string 0 1) (prog 0%nat) = false /\ xpath Sy (mkCall "R"%string 0 3 "R2g"%string 0 1) (prog 0%nat) = None /\
  ground0 Sy.
Proof.
  cbv zeta. split; [reflexivity|]. split; [eexists; split; [vm_compute; reflexivity|repeat split]|].
  split; [reflexivity|]. split; [reflexivity|]. split; [reflexivity|]. split; [reflexivity|].
  intros g [<-|[]]. reflexivity.
Qed.

(* non-vacuity: <x x x x> = 1/5 and <x x y y> = 1/15 (times 30), a non-trivial orthogonal matrix, the number of pathways
   of an uncoupled dimer, and a cross peak that is present without excited-state absorption *)
Example c12_example_values :
  orient30 (R:=ZR) (1,0,0)%Z (1,0,0)%Z (1,0,0)%Z (1,0,0)%Z (0,0,1)%Z (0,0,1)%Z (0,0,1)%Z (0,0,1)%Z = 6%Z /\
  orient30 (R:=ZR) (1,0,0)%Z (1,0,0)%Z (0,1,0)%Z (0,1,0)%Z (0,0,1)%Z (0,0,1)%Z (0,0,1)%Z (0,0,1)%Z = 2%Z /\
  @orthogonal ZR ((0,1,0),(0,0,1),(-1,0,0))%Z /\
  length (gen6 (usys (R:=ZR) 2 (fun a => Z.of_nat a + 9) (fun a => (1, Z.of_nat a, 0)) (fun _ => 1) (fun _ => 1) (fun _ _ => 1) (fun _ => true))%Z) = 24%nat /\
  length (gen6 (usys (R:=ZR) 3 (fun a => Z.of_nat a + 9) (fun a => (1, Z.of_nat a, 0)) (fun _ => 1) (fun _ => 1) (fun _ _ => 1) (fun _ => true))%Z) = 60%nat.
Proof. vm_compute. repeat split. Qed.

Example c12_example_cross_peak_without_esa :
  let L : bool -> bool -> ZR -> ZR -> ZR -> ZR -> ZR := fun _ reph c1 _ c3 _ => (if reph then (if (c1 =? -9) && (c3 =? 10) then 1 else 0) else 0)%Z in
  let S := usys (R:=ZR) 2 (fun a => Z.of_nat a + 9)%Z (fun a => (1, 0, 0)%Z) (fun _ => 1%Z) (fun _ => 1%Z) (fun _ _ => 1%Z) (fun _ => true) in
  response L (fun x => Z.ltb x 0) 1%Z true (4, -1, -1)%Z (gen4 S) = 4%Z /\
  response L (fun x => Z.ltb x 0) 1%Z true (4, -1, -1)%Z (gen6 S) = 0%Z.
Proof. vm_compute. split; reflexivity. Qed.
